package sql

// C17 — XA branches follow the XA protocol; phase two addresses the prepared
// branch. Real XAConn (ExecContext/BeginTx/start/Commit/Rollback/XaCommit/
// XaRollback), real xa.MysqlXAConn command building, real XaIdBuild, real
// XAResourceManager.BranchCommit/BranchRollback/finishBranch and
// DBResource.Hold/Lookup/ConnectionForXA, real Tx.register and
// rm.RMRemoting.BranchRegister. See DESIGN.md §4 C17.

import (
	"context"
	"database/sql/driver"
	"errors"
	"strconv"
	"strings"
	"sync"
	"time"

	"github.com/bluele/gcache"

	"seata.apache.org/seata-go/pkg/datasource/sql/datasource"
	"seata.apache.org/seata-go/pkg/datasource/sql/types"
	"seata.apache.org/seata-go/pkg/protocol/branch"
	"seata.apache.org/seata-go/pkg/protocol/message"
	"seata.apache.org/seata-go/pkg/remoting/getty"
	"seata.apache.org/seata-go/pkg/rm"
	"seata.apache.org/seata-go/pkg/tm"
	"seata.apache.org/seata-go/pkg/zzverif/vrt"
)

type c17Event struct {
	conn int    // database connection id; -1: coordinator
	text string // SQL command, or "REGISTER"
	ok   bool
}

type c17World struct {
	events  []c17Event
	cmds    int
	failAt  int // the failAt-th database command fails (-1: none)
	faulted bool
	nconn   int
}

type c17Conn struct {
	driver.Conn
	id     int
	w      *c17World
	closed bool
}

type c17Result struct{}

func (c17Result) LastInsertId() (int64, error) { return 0, nil }
func (c17Result) RowsAffected() (int64, error) { return 1, nil }

func (c *c17Conn) ExecContext(ctx context.Context, query string, args []driver.NamedValue) (driver.Result, error) {
	if c.closed {
		// nothing reaches the database any more
		c.w.events = append(c.w.events, c17Event{c.id, "ON-CLOSED-CONN " + query, false})
		return nil, driver.ErrBadConn
	}
	k := c.w.cmds
	c.w.cmds++
	if k == c.w.failAt {
		c.w.faulted = true
		c.w.events = append(c.w.events, c17Event{c.id, query, false})
		return nil, errors.New("injected database failure")
	}
	c.w.events = append(c.w.events, c17Event{c.id, query, true})
	return c17Result{}, nil
}
func (c *c17Conn) Close() error { c.closed = true; return nil }

// like go-sql-driver/mysql, the stub driver connection supports session reset
func (c *c17Conn) ResetSession(ctx context.Context) error { return nil }

type c17Connector struct{ w *c17World }

func (c c17Connector) Connect(context.Context) (driver.Conn, error) {
	c.w.nconn++
	return &c17Conn{id: c.w.nconn, w: c.w}, nil
}
func (c c17Connector) Driver() driver.Driver { return nil }

var c17BranchIDs = []uint64{1, 9, 10, 4294967296, 9223372036854775809, 18446744073709551615}

// c17Cmds returns the successful/attempted commands on connection conn that start with prefix.
func (w *c17World) count(prefix string, onlyOK bool) int {
	n := 0
	for _, e := range w.events {
		if e.conn >= 0 && strings.HasPrefix(e.text, prefix) && (e.ok || !onlyOK) {
			n++
		}
	}
	return n
}

// legal replays the journal of every database connection against the XA state
// machine of the database (MySQL: NONE -START-> ACTIVE -END-> IDLE -PREPARE->
// PREPARED; ROLLBACK from IDLE / PREPARED, COMMIT from PREPARED, COMMIT ... ONE
// PHASE from IDLE) and says whether every command was one the branch's state
// admits. A command that failed leaves the state as it was, except that after a
// failed END the branch may be rollback-only (END again or ROLLBACK are admitted)
// and after a failed PREPARE only ROLLBACK is.
func (w *c17World) legal() bool {
	type st int
	const (
		none st = iota
		active
		idle
		prepared
		failedEnd
		failedPrepare
	)
	state := map[int]st{}
	for _, e := range w.events {
		if e.conn < 0 || !strings.HasPrefix(e.text, "XA ") {
			continue
		}
		cur := state[e.conn]
		var next st
		ok := false
		switch {
		case strings.HasPrefix(e.text, "XA START"):
			ok, next = cur == none, active
		case strings.HasPrefix(e.text, "XA END"):
			ok, next = cur == active || cur == failedEnd, idle
		case strings.HasPrefix(e.text, "XA PREPARE"):
			ok, next = cur == idle, prepared
		case strings.HasPrefix(e.text, "XA COMMIT"):
			ok, next = cur == prepared || (cur == idle && strings.Contains(e.text, "ONE PHASE")) || cur == none, none // none: phase two on another connection
		case strings.HasPrefix(e.text, "XA ROLLBACK"):
			ok, next = cur == idle || cur == prepared || cur == failedEnd || cur == failedPrepare || cur == none, none
		default:
			ok, next = true, cur
		}
		if !ok {
			return false
		}
		if e.ok {
			state[e.conn] = next
		} else if strings.HasPrefix(e.text, "XA END") {
			state[e.conn] = failedEnd
		} else if strings.HasPrefix(e.text, "XA PREPARE") {
			state[e.conn] = failedPrepare
		}
	}
	return true
}

func (w *c17World) index(prefix string) int {
	for i, e := range w.events {
		if strings.HasPrefix(e.text, prefix) {
			return i
		}
	}
	return -1
}

func VerifC17Branch() {
	w := &c17World{failAt: vrt.Choice("failAt", 7) - 1}
	xid := vrt.String("xid", 3)
	vrt.Assume(xid != "")
	branchID := c17BranchIDs[vrt.Choice("branchId", len(c17BranchIDs))]
	regOutcome := vrt.Choice("register", 3) // 0 ok, 1 refused, 2 transport error
	vrt.Redirect((*getty.GettyRemotingClient).SendSyncRequest, func(_ *getty.GettyRemotingClient, msg interface{}) (interface{}, error) {
		if _, ok := msg.(message.BranchRegisterRequest); ok {
			w.events = append(w.events, c17Event{-1, "REGISTER", regOutcome == 0})
			switch regOutcome {
			case 0:
				return message.BranchRegisterResponse{AbstractTransactionResponse: message.AbstractTransactionResponse{
					AbstractResultMessage: message.AbstractResultMessage{ResultCode: message.ResultCodeSuccess}}, BranchId: int64(branchID)}, nil
			case 1:
				return message.BranchRegisterResponse{AbstractTransactionResponse: message.AbstractTransactionResponse{
					AbstractResultMessage: message.AbstractResultMessage{ResultCode: message.ResultCodeFailed, Msg: "lock conflict"}}}, nil
			}
			return nil, errors.New("wait response timeout")
		}
		if _, ok := msg.(message.BranchReportRequest); ok {
			w.events = append(w.events, c17Event{-1, "REPORT", true})
			return message.BranchReportResponse{AbstractTransactionResponse: message.AbstractTransactionResponse{
				AbstractResultMessage: message.AbstractResultMessage{ResultCode: message.ResultCodeSuccess}}}, nil
		}
		return nil, errors.New("unexpected request")
	})
	branchStatusCache = gcache.New(16).LRU().Build()
	xaConnTimeout = time.Hour
	timedOut := vrt.Choice("branch-times-out", 2) == 1
	if timedOut {
		xaConnTimeout = time.Nanosecond
	}
	held := vrt.Choice("held", 2) == 1
	res := &DBResource{resourceID: "res", dbType: types.DBTypeMySQL, connector: c17Connector{w}, shouldBeHeld: held, branchType: branch.BranchTypeXA}
	mgr := &XAResourceManager{resourceCache: sync.Map{}, basic: datasource.NewBasicSourceManager(), rmRemoting: rm.GetRMRemotingInstance()}
	mgr.resourceCache.Store("res", res)
	rm.GetRmCacheInstance().RegisterResourceManager(mgr)

	dc, _ := res.connector.Connect(context.Background())
	c := &XAConn{Conn: &Conn{res: res, txCtx: types.NewTxCtx(), targetConn: dc, autoCommit: true, dbType: types.DBTypeMySQL}}
	ctx := tm.InitSeataContext(context.Background())
	tm.SetXID(ctx, xid)

	// ---- phase one: one business statement on an autocommit connection ----
	var err error
	panicked := false
	func() {
		defer func() {
			if r := recover(); r != nil {
				panicked = true
			}
		}()
		_, err = c.ExecContext(ctx, "UPDATE t SET a = 1", nil)
	}()
	id := xid + "-" + strconv.FormatUint(branchID, 10)
	q := func(cmd string) string { return "XA " + cmd + " '" + id + "'" }
	vrt.Reach("xa/phase-one-done")
	vrt.Assert(!panicked, "xa/phase-one-no-panic")
	vrt.Assert(w.legal(), "xa/commands-follow-the-xa-state-machine")
	if panicked {
		return
	}
	iReg, iStart := w.index("REGISTER"), w.index("XA START")
	vrt.Assert(iReg >= 0, "xa/branch-registered")
	if iStart >= 0 {
		vrt.Assert(iReg < iStart, "xa/registered-before-start")
	}
	failure := regOutcome != 0 || w.faulted || timedOut
	if failure {
		vrt.Reach("xa/phase-one-failed")
		vrt.Assert(err != nil, "xa/failure=>error")
		if w.count("XA START", false) > 0 {
			// the statement may have reached the database: database/sql must not take the
			// error for "nothing happened on a dead connection" and run the statement again
			vrt.Assert(!errors.Is(err, driver.ErrBadConn), "xa/failure-after-start-is-not-a-bad-connection-error")
		}
		vrt.Assert(w.count("XA COMMIT", false) == 0, "xa/failure=>no-commit")
		if regOutcome != 0 {
			vrt.Assert(iStart < 0, "xa/registration-refused=>no-start")
		}
		if w.count("XA START", true) > 0 && w.count("XA PREPARE", true) == 0 {
			// started but not prepared: the branch must have been asked to roll back
			// (unless the ROLLBACK command itself is the one that failed)
			vrt.Assert(w.count(q("ROLLBACK"), false) >= 1, "xa/failure-after-start=>rollback")
		}
		return
	}
	vrt.Reach("xa/phase-one-ok")
	vrt.Assert(err == nil, "xa/no-failure=>ok")
	want := []string{q("START"), "UPDATE t SET a = 1", q("END"), q("PREPARE")}
	n := 0
	for _, e := range w.events {
		if e.conn < 0 {
			continue
		}
		if n < len(want) {
			vrt.Assert(e.conn == 1 && e.text == want[n], "xa/phase-one-sequence")
		}
		n++
	}
	vrt.Assert(n == len(want), "xa/phase-one-sequence-length")

	// ---- phase two ----
	commit := vrt.Choice("phase2", 2) == 0
	fresh := vrt.Choice("fresh-process", 2) == 1
	m2 := mgr
	if fresh {
		// a process that never saw phase one: same resource id, empty keeper
		res2 := &DBResource{resourceID: "res", dbType: types.DBTypeMySQL, connector: c17Connector{w}, shouldBeHeld: held, branchType: branch.BranchTypeXA}
		m2 = &XAResourceManager{resourceCache: sync.Map{}, basic: datasource.NewBasicSourceManager(), rmRemoting: rm.GetRMRemotingInstance()}
		m2.resourceCache.Store("res", res2)
	}
	// between the phases database/sql may close the pooled connection (idle limit, life
	// time): the branch is prepared on it, whether or not this server version needs the
	// connection to be held
	if vrt.Bool("pool.closes.the.connection.between.phases") {
		vrt.Reach("xa/pool-closed-the-connection")
		_ = c.Close()
	}
	before := len(w.events)
	w.failAt = -1
	// the phase-two command itself may fail in the database
	p2fails := vrt.Bool("phase2.command.fails")
	if p2fails {
		w.failAt = w.cmds
	}
	br := rm.BranchResource{BranchType: branch.BranchTypeXA, Xid: xid, BranchId: int64(branchID), ResourceId: "res"}
	var st branch.BranchStatus
	var err2 error
	if commit {
		st, err2 = m2.BranchCommit(ctx, br)
	} else {
		st, err2 = m2.BranchRollback(ctx, br)
	}
	vrt.Reach("xa/phase-two-done")
	vrt.Assert(w.count("ON-CLOSED-CONN", false) == 0, "xa/no-command-on-a-closed-connection")
	vrt.Assert(w.legal(), "xa/phase-two-commands-follow-the-xa-state-machine")
	if p2fails {
		vrt.Reach("xa/phase-two-command-failed")
		// a prepared branch gets its decision or nothing: a failed COMMIT is not followed by a
		// ROLLBACK (nor the reverse), and the failure is not answered as done
		xa := 0
		for _, e := range w.events[before:] {
			if e.conn >= 0 && strings.HasPrefix(e.text, "XA ") {
				xa++
			}
		}
		vrt.Assert(xa == 1, "xa/failed-phase-two-command-is-the-only-one")
		vrt.Assert(st != branch.BranchStatusPhasetwoCommitted && st != branch.BranchStatusPhasetwoRollbacked, "xa/failed-phase-two-is-not-answered-done")
		return
	}
	vrt.Assert(err2 == nil, "xa/phase-two-ok")
	cmds := w.events[before:]
	vrt.Assert(len(cmds) == 1, "xa/phase-two-exactly-one-command")
	if len(cmds) == 1 {
		if commit {
			vrt.Assert(cmds[0].text == q("COMMIT"), "xa/phase-two-commit-uses-phase-one-identifier")
			vrt.Assert(st == branch.BranchStatusPhasetwoCommitted, "xa/phase-two-commit-status")
		} else {
			vrt.Assert(cmds[0].text == q("ROLLBACK"), "xa/phase-two-rollback-uses-phase-one-identifier")
			vrt.Assert(st == branch.BranchStatusPhasetwoRollbacked, "xa/phase-two-rollback-status")
		}
		if held && !fresh {
			vrt.Assert(cmds[0].conn == 1, "xa/held-connection-finishes-the-branch")
		}
	}
}

// VerifC17Reuse: two statements of two global transactions on one pooled
// connection (database/sql calls ResetSession between uses, never Close):
// the second branch obeys the same rules whatever happened to the first.
func VerifC17Reuse() {
	w := &c17World{failAt: -1}
	xids := []string{vrt.String("xid1", 2), vrt.String("xid2", 2)}
	vrt.Assume(xids[0] != "" && xids[1] != "" && xids[0] != xids[1])
	branchIDs := []uint64{7, 10}
	round := 0
	vrt.Redirect((*getty.GettyRemotingClient).SendSyncRequest, func(_ *getty.GettyRemotingClient, msg interface{}) (interface{}, error) {
		if _, ok := msg.(message.BranchRegisterRequest); ok {
			w.events = append(w.events, c17Event{-1, "REGISTER", true})
			return message.BranchRegisterResponse{AbstractTransactionResponse: message.AbstractTransactionResponse{
				AbstractResultMessage: message.AbstractResultMessage{ResultCode: message.ResultCodeSuccess}}, BranchId: int64(branchIDs[round])}, nil
		}
		return message.BranchReportResponse{AbstractTransactionResponse: message.AbstractTransactionResponse{
			AbstractResultMessage: message.AbstractResultMessage{ResultCode: message.ResultCodeSuccess}}}, nil
	})
	branchStatusCache = gcache.New(16).LRU().Build()
	xaConnTimeout = time.Hour
	held := vrt.Choice("held", 2) == 1
	res := &DBResource{resourceID: "res", dbType: types.DBTypeMySQL, connector: c17Connector{w}, shouldBeHeld: held, branchType: branch.BranchTypeXA}
	mgr := &XAResourceManager{resourceCache: sync.Map{}, basic: datasource.NewBasicSourceManager(), rmRemoting: rm.GetRMRemotingInstance()}
	mgr.resourceCache.Store("res", res)
	rm.GetRmCacheInstance().RegisterResourceManager(mgr)
	dc, _ := res.connector.Connect(context.Background())
	c := &XAConn{Conn: &Conn{res: res, txCtx: types.NewTxCtx(), targetConn: dc, autoCommit: true, dbType: types.DBTypeMySQL}}

	// how the first statement ends: a failure at one of its database commands
	firstFail := vrt.Choice("first.failAt", 4) // command 0..3 of the first statement fails
	for round = 0; round < 2; round++ {
		ctx := tm.InitSeataContext(context.Background())
		tm.SetXID(ctx, xids[round])
		start := len(w.events)
		w.faulted = false
		if round == 0 {
			w.failAt = w.cmds + firstFail
		} else {
			w.failAt = -1
			if k := vrt.Choice("second.failAt", 5); k > 0 {
				w.failAt = w.cmds + k - 1
			}
			// the pool hands the connection out again
			if rerr := c.ResetSession(ctx); rerr != nil && rerr != driver.ErrSkip {
				return
			}
		}
		var err error
		panicked := false
		func() {
			defer func() {
				if recover() != nil {
					panicked = true
				}
			}()
			_, err = c.ExecContext(ctx, "UPDATE t SET a = 1", nil)
		}()
		if round == 0 {
			continue
		}
		vrt.Reach("reuse/second-statement-done")
		id := xids[1] + "-" + strconv.FormatUint(branchIDs[1], 10)
		ev := w.events[start:]
		started, prepared, rolledBack, committed := 0, 0, 0, 0
		for _, e := range ev {
			switch {
			case e.ok && e.text == "XA START '"+id+"'":
				started++
			case e.ok && e.text == "XA PREPARE '"+id+"'":
				prepared++
			case e.text == "XA ROLLBACK '"+id+"'":
				rolledBack++
			case strings.HasPrefix(e.text, "XA COMMIT"):
				committed++
			}
		}
		vrt.Assert(!panicked, "reuse/no-panic")
		vrt.Assert(committed == 0, "reuse/no-commit-in-phase-one")
		if w.faulted {
			vrt.Assert(err != nil, "reuse/failure=>error")
			if started > 0 && prepared == 0 {
				vrt.Assert(rolledBack >= 1, "reuse/failure-after-start=>rollback")
			}
		}
		if err == nil {
			vrt.Assert(started == 1 && prepared == 1, "reuse/success=>started-and-prepared")
		}
	}
}

// VerifC17Explicit: an explicit transaction (BeginTx ... Commit) in XA mode.
func VerifC17Explicit() {
	w := &c17World{failAt: -1}
	xid := vrt.String("xid", 2)
	vrt.Assume(xid != "")
	branchID := c17BranchIDs[vrt.Choice("branchId", 2)]
	vrt.Redirect((*getty.GettyRemotingClient).SendSyncRequest, func(_ *getty.GettyRemotingClient, msg interface{}) (interface{}, error) {
		if _, ok := msg.(message.BranchRegisterRequest); ok {
			w.events = append(w.events, c17Event{-1, "REGISTER", true})
			return message.BranchRegisterResponse{AbstractTransactionResponse: message.AbstractTransactionResponse{
				AbstractResultMessage: message.AbstractResultMessage{ResultCode: message.ResultCodeSuccess}}, BranchId: int64(branchID)}, nil
		}
		return message.BranchReportResponse{AbstractTransactionResponse: message.AbstractTransactionResponse{
			AbstractResultMessage: message.AbstractResultMessage{ResultCode: message.ResultCodeSuccess}}}, nil
	})
	branchStatusCache = gcache.New(16).LRU().Build()
	xaConnTimeout = time.Hour
	res := &DBResource{resourceID: "res", dbType: types.DBTypeMySQL, connector: c17Connector{w}, shouldBeHeld: true, branchType: branch.BranchTypeXA}
	mgr := &XAResourceManager{resourceCache: sync.Map{}, basic: datasource.NewBasicSourceManager(), rmRemoting: rm.GetRMRemotingInstance()}
	mgr.resourceCache.Store("res", res)
	rm.GetRmCacheInstance().RegisterResourceManager(mgr)
	dc, _ := res.connector.Connect(context.Background())
	c := &XAConn{Conn: &Conn{res: res, txCtx: types.NewTxCtx(), targetConn: dc, autoCommit: true, dbType: types.DBTypeMySQL}}
	ctx := tm.InitSeataContext(context.Background())
	tm.SetXID(ctx, xid)

	tx, err := c.BeginTx(ctx, driver.TxOptions{})
	vrt.Assert(err == nil && tx != nil, "explicit/begin-ok")
	_, err = c.ExecContext(ctx, "UPDATE t SET a = 1", nil)
	vrt.Assert(err == nil, "explicit/statement-ok")
	err = tx.Commit()
	vrt.Reach("explicit/committed")
	vrt.Assert(err == nil, "explicit/commit-ok")
	id := xid + "-" + strconv.FormatUint(branchID, 10)
	vrt.Assert(w.count("XA START '"+id+"'", true) == 1, "explicit/started-once")
	vrt.Assert(w.count("XA END '"+id+"'", true) == 1 && w.count("XA PREPARE '"+id+"'", true) == 1, "explicit/local-commit-ends-and-prepares-the-branch")
}

// VerifC17Identifier: the branch identifier is a function of (xid, branch id)
// and decodes back to them.
func VerifC17Identifier() {
	// a coordinator address as short as it gets, or a long host name (the whole
	// identifier then exceeds 64 bytes), then an arbitrary tail
	host := []string{"", "seata-server-0.seata-headless.prod.svc.cluster.local:8091:4611686018"}[vrt.Choice("host", 2)]
	xid := host + vrt.String("xid", vrt.Choice("xidlen", 4))
	b := c17BranchIDs[vrt.Choice("branchId", len(c17BranchIDs))]
	x := XaIdBuild(xid, b)
	vrt.Reach("id/built")
	vrt.Assert(x.GetGlobalXid() == xid && x.GetBranchId() == b, "id/carries-xid-and-branch")
	vrt.Assert(x.String() == xid+"-"+strconv.FormatUint(b, 10), "id/text")
	y := XaIdBuildWithByte(x.GetGlobalTransactionId(), x.GetBranchQualifier())
	if xid != "" {
		vrt.Assert(y.GetGlobalXid() == xid && y.GetBranchId() == b, "id/round-trip")
	}
	// another (xid, branch) pair of the same shape gives a different text
	xid2 := host + vrt.String("xid2", len(xid)-len(host))
	b2 := c17BranchIDs[vrt.Choice("branchId2", len(c17BranchIDs))]
	if xid2 != xid || b2 != b {
		vrt.Assert(XaIdBuild(xid2, b2).String() != x.String(), "id/injective-for-equal-length-xids")
	}
}
