package sql

// adb: a driver-level stub database for C18 / C03 that *evaluates* the SQL it
// receives: each statement is parsed with the same parser library the proxy
// uses and interpreted over a small table of integer cells (symbolic under the
// engine). It is the ground truth for "the rows the statement changed".

import (
	"context"
	"database/sql/driver"
	"errors"
	"io"
	"strconv"
	"strings"

	"github.com/arana-db/parser"
	"github.com/arana-db/parser/ast"
	"github.com/arana-db/parser/opcode"
	"github.com/arana-db/parser/test_driver"
)

type aRow struct {
	cells   []int64
	null    []bool // per cell: NULL (nil slice: no NULLs)
	present bool
}

func (r *aRow) isNull(k int) bool { return k < len(r.null) && r.null[k] }

// get: the cell as a driver value (nil for NULL)
func (r *aRow) get(k int) interface{} {
	if r.isNull(k) {
		return nil
	}
	return r.cells[k]
}

func (r *aRow) set(k int, v interface{}) {
	if r.null == nil {
		r.null = make([]bool, len(r.cells))
	}
	if v == nil {
		r.cells[k], r.null[k] = 0, true
		return
	}
	r.cells[k], r.null[k] = aInt(v), false
}

func (r aRow) clone() aRow {
	c := aRow{cells: append([]int64(nil), r.cells...), present: r.present}
	if r.null != nil {
		c.null = append([]bool(nil), r.null...)
	}
	return c
}

// aSameRow: same cells, NULL only equal to NULL
func aSameRow(a, b aRow) bool {
	for k := range a.cells {
		if a.isNull(k) != b.isNull(k) || (!a.isNull(k) && a.cells[k] != b.cells[k]) {
			return false
		}
	}
	return true
}

type aDB struct {
	table    string
	cols     []string
	pk       []int
	nullable []bool // per column (nil: every column NOT NULL)
	auto     int    // index of the auto-increment column, -1 if none
	rows     []aRow
	nextAuto int64
	autoStep int64 // auto_increment_increment of this server / session (0: 1)

	bad     string
	journal []string
	// ground truth of the last data-changing statement
	changedBefore []aRow
	changedAfter  []aRow
	lastKind      string
	stmts         int
	failAt        int
	// transactions (one connection): BEGIN takes a snapshot, ROLLBACK restores it; with
	// txSteps the transaction commands and the undo-log insert are statements of their
	// own for failAt and appear in the journal
	txSteps   bool
	txOpen    bool
	txSnap    []aRow
	undoRows  []aUndoRow
	undoSnap  int
	commitsOK int
	// which step the injected failure hit ("statement" for a query or DML statement)
	journalFailed string

	execs    int // business statements (Exec calls that are not savepoints) so far
	failExec int // the k-th of them (1-based) is rejected by the database; 0: none

	setCols            map[int]bool // columns assigned by the UPDATE statement(s) of the last Exec
	savepoint          []aRow
	savepoints         int
	savepointRollbacks int
	txBegins           int
	txCommits          int
	txRollbacks        int
}

func (d *aDB) col(name string) int {
	for k, c := range d.cols {
		if strings.EqualFold(c, name) {
			return k
		}
	}
	return -1
}

func (d *aDB) isNullable(k int) bool { return k < len(d.nullable) && d.nullable[k] }

func (d *aDB) isPK(k int) bool {
	for _, p := range d.pk {
		if p == k {
			return true
		}
	}
	return false
}

type aEval struct {
	d    *aDB
	row  *aRow
	args []driver.NamedValue
	bad  string
}

func (e *aEval) arg(order int) interface{} {
	if order < 0 || order >= len(e.args) {
		e.bad = "placeholder index out of range"
		return int64(0)
	}
	switch v := e.args[order].Value.(type) {
	case int64:
		return v
	case int:
		return int64(v)
	case nil:
		return nil
	}
	e.bad = "unsupported argument type"
	return int64(0)
}

func aBool(v interface{}) bool {
	switch x := v.(type) {
	case bool:
		return x
	case int64:
		return x != 0
	}
	return false
}

func aInt(v interface{}) int64 {
	switch x := v.(type) {
	case int64:
		return x
	case bool:
		if x {
			return 1
		}
	}
	return 0
}

// eval evaluates an expression to int64 / bool / nil(NULL) / []interface{} (row).
func (e *aEval) eval(n ast.ExprNode) interface{} {
	switch x := n.(type) {
	case *ast.ParenthesesExpr:
		return e.eval(x.Expr)
	case *ast.ColumnNameExpr:
		c := e.d.col(x.Name.Name.O)
		if c < 0 || e.row == nil {
			e.bad = "unknown column " + x.Name.Name.O
			return int64(0)
		}
		return e.row.get(c)
	case *test_driver.ParamMarkerExpr:
		return e.arg(x.Order)
	case *test_driver.ValueExpr:
		switch x.Kind() {
		case test_driver.KindInt64:
			return x.GetInt64()
		case test_driver.KindUint64:
			return int64(x.GetUint64())
		case test_driver.KindNull:
			return nil
		}
		e.bad = "unsupported literal"
		return int64(0)
	case *ast.RowExpr:
		var vs []interface{}
		for _, v := range x.Values {
			vs = append(vs, e.eval(v))
		}
		return vs
	case *ast.UnaryOperationExpr:
		v := e.eval(x.V)
		if v == nil {
			return nil // NULL in, NULL out
		}
		switch x.Op {
		case opcode.Not, opcode.Not2:
			return !aBool(v)
		case opcode.Minus:
			return -aInt(v)
		case opcode.Plus:
			return v
		}
		e.bad = "unsupported unary operator"
		return int64(0)
	case *ast.BinaryOperationExpr:
		switch x.Op {
		case opcode.LogicAnd:
			// three-valued: FALSE wins over NULL, NULL over TRUE
			l, r := e.eval(x.L), e.eval(x.R)
			if (l != nil && !aBool(l)) || (r != nil && !aBool(r)) {
				return false
			}
			if l == nil || r == nil {
				return nil
			}
			return true
		case opcode.LogicOr:
			l, r := e.eval(x.L), e.eval(x.R)
			if (l != nil && aBool(l)) || (r != nil && aBool(r)) {
				return true
			}
			if l == nil || r == nil {
				return nil
			}
			return false
		}
		l, r := e.eval(x.L), e.eval(x.R)
		if l == nil || r == nil {
			return nil
		}
		a, b := aInt(l), aInt(r)
		switch x.Op {
		case opcode.EQ:
			return a == b
		case opcode.NE:
			return a != b
		case opcode.LT:
			return a < b
		case opcode.LE:
			return a <= b
		case opcode.GT:
			return a > b
		case opcode.GE:
			return a >= b
		case opcode.Plus:
			return a + b
		case opcode.Minus:
			return a - b
		case opcode.Mul:
			return a * b
		}
		e.bad = "unsupported binary operator"
		return int64(0)
	case *ast.BetweenExpr:
		ev, el, eh := e.eval(x.Expr), e.eval(x.Left), e.eval(x.Right)
		if ev == nil || el == nil || eh == nil {
			// (one NULL bound can still decide the test in MySQL; the harness passes no NULL bounds)
			return nil
		}
		v, lo, hi := aInt(ev), aInt(el), aInt(eh)
		in := v >= lo && v <= hi
		return in != x.Not
	case *ast.PatternInExpr:
		v := e.eval(x.Expr)
		found, unknown := false, v == nil
		for _, it := range x.List {
			w := e.eval(it)
			if w == nil {
				unknown = true
			}
			if aSame(v, w) {
				found = true
			}
		}
		if !found && unknown {
			return nil
		}
		return found != x.Not
	case *ast.IsNullExpr:
		v := e.eval(x.Expr)
		return (v == nil) != x.Not
	}
	e.bad = "unsupported expression node"
	return int64(0)
}

func aSame(a, b interface{}) bool {
	ra, oka := a.([]interface{})
	rb, okb := b.([]interface{})
	if oka || okb {
		if !oka || !okb || len(ra) != len(rb) {
			// (x) IN ((?)): a one-element row against a scalar
			if oka && len(ra) == 1 && !okb {
				return aSame(ra[0], b)
			}
			if okb && len(rb) == 1 && !oka {
				return aSame(a, rb[0])
			}
			return false
		}
		for i := range ra {
			if !aSame(ra[i], rb[i]) {
				return false
			}
		}
		return true
	}
	if a == nil || b == nil {
		return false
	}
	return aInt(a) == aInt(b)
}

func (d *aDB) parse(q string) ast.StmtNode {
	p := parser.New()
	st, err := p.ParseOneStmt(q, "", "")
	if err != nil {
		d.bad = "stub cannot parse: " + q
		return nil
	}
	return st
}

func (d *aDB) where(w ast.ExprNode, r *aRow, args []driver.NamedValue) bool {
	if w == nil {
		return true
	}
	e := &aEval{d: d, row: r, args: args}
	v := aBool(e.eval(w))
	if e.bad != "" {
		d.bad = e.bad
	}
	return v
}

type aResult struct{ affected, lastID int64 }

func (r aResult) LastInsertId() (int64, error) { return r.lastID, nil }
func (r aResult) RowsAffected() (int64, error) { return r.affected, nil }

type aConn struct{ d *aDB }

type aUndoRow struct {
	branch int64
	xid    string
}

// step: one more statement for the fault index (transaction commands, undo-log insert)
func (d *aDB) step(what string) error {
	d.journal = append(d.journal, what)
	if !d.txSteps {
		return nil
	}
	k := d.stmts
	d.stmts++
	if k == d.failAt {
		d.journalFailed = what
		return errors.New("injected database failure at " + what)
	}
	return nil
}

// durable: the committed rows and undo-log rows (what survives if the connection dies now)
func (d *aDB) durable() ([]aRow, []aUndoRow) {
	if d.txOpen {
		return d.txSnap, d.undoRows[:d.undoSnap]
	}
	return d.rows, d.undoRows
}

type aUndoStmt struct{ d *aDB }

func (aUndoStmt) Close() error  { return nil }
func (aUndoStmt) NumInput() int { return -1 }
func (s aUndoStmt) Exec(args []driver.Value) (driver.Result, error) {
	if err := s.d.step("INSERT undo_log"); err != nil {
		return nil, err
	}
	r := aUndoRow{}
	if len(args) >= 2 {
		switch b := args[0].(type) {
		case int64:
			r.branch = b
		case uint64:
			r.branch = int64(b)
		}
		r.xid, _ = args[1].(string)
	}
	s.d.undoRows = append(s.d.undoRows, r)
	return aResult{affected: 1}, nil
}
func (aUndoStmt) Query([]driver.Value) (driver.Rows, error) {
	return nil, errors.New("adb: query of an undo-log insert")
}

// Prepare: only the server-variable query the insert executor sends is supported; it is
// answered the way go-sql-driver's text protocol does (two columns, values as []byte,
// Next fills as many cells as dest has).
func (c *aConn) Prepare(q string) (driver.Stmt, error) {
	c.d.journal = append(c.d.journal, q)
	if strings.HasPrefix(strings.ToUpper(strings.TrimSpace(q)), "SHOW VARIABLES LIKE 'AUTO_INCREMENT_INCREMENT'") {
		return aShowStmt{c.d}, nil
	}
	if strings.HasPrefix(strings.ToUpper(strings.TrimSpace(q)), "INSERT INTO UNDO_LOG") || strings.HasPrefix(strings.ToUpper(strings.TrimSpace(q)), "INSERT INTO  UNDO_LOG") {
		return aUndoStmt{c.d}, nil
	}
	return nil, errors.New("adb: prepare not supported")
}

type aShowStmt struct{ d *aDB }

func (aShowStmt) Close() error  { return nil }
func (aShowStmt) NumInput() int { return 0 }
func (aShowStmt) Exec([]driver.Value) (driver.Result, error) {
	return nil, errors.New("adb: exec of SHOW")
}
func (s aShowStmt) Query([]driver.Value) (driver.Rows, error) {
	step := int64(1)
	if s.d != nil && s.d.autoStep > 0 {
		step = s.d.autoStep
	}
	return &aShowRows{step: step}, nil
}

type aShowRows struct {
	done bool
	step int64
}

func (r *aShowRows) Columns() []string { return []string{"Variable_name", "Value"} }
func (r *aShowRows) Close() error      { return nil }
func (r *aShowRows) Next(dest []driver.Value) error {
	if r.done {
		return io.EOF
	}
	r.done = true
	row := []driver.Value{[]byte("auto_increment_increment"), []byte(strconv.FormatInt(r.step, 10))}
	for i := range dest {
		if i < len(row) {
			dest[i] = row[i]
		}
	}
	return nil
}
func (c *aConn) Close() error { return nil }
func (c *aConn) Begin() (driver.Tx, error) {
	return c.BeginTx(context.Background(), driver.TxOptions{})
}
func (c *aConn) BeginTx(ctx context.Context, o driver.TxOptions) (driver.Tx, error) {
	d := c.d
	d.txBegins++
	if d.txSteps {
		if err := d.step("BEGIN"); err != nil {
			return nil, err
		}
	}
	d.txOpen, d.undoSnap = true, len(d.undoRows)
	d.txSnap = make([]aRow, len(d.rows))
	for i, r := range d.rows {
		d.txSnap[i] = r.clone()
	}
	return aTx{d}, nil
}

type aTx struct{ d *aDB }

func (t aTx) Commit() error {
	t.d.txCommits++
	if t.d.txSteps {
		if err := t.d.step("COMMIT"); err != nil {
			return err
		}
	}
	t.d.txOpen, t.d.txSnap = false, nil
	t.d.commitsOK++
	return nil
}
func (t aTx) Rollback() error {
	t.d.txRollbacks++
	if t.d.txSteps {
		if err := t.d.step("ROLLBACK"); err != nil {
			return err
		}
	}
	if t.d.txOpen {
		t.d.rows, t.d.undoRows = t.d.txSnap, t.d.undoRows[:t.d.undoSnap]
	}
	t.d.txOpen, t.d.txSnap = false, nil
	return nil
}

func (c *aConn) ExecContext(ctx context.Context, q string, args []driver.NamedValue) (driver.Result, error) {
	d := c.d
	d.setCols = map[int]bool{}
	d.journal = append(d.journal, q)
	k := d.stmts
	d.stmts++
	if k == d.failAt {
		d.journalFailed = "statement"
		return nil, errors.New("injected database failure")
	}
	if d.savepointStmt(q) {
		return aResult{}, nil
	}
	d.execs++
	if d.execs == d.failExec {
		return nil, errors.New("Error 1205: Lock wait timeout exceeded; try restarting transaction")
	}
	// a batch of statements ("a; b"): each is applied in turn; the ground truth of the
	// batch is, per row, its content before the first and after the last change
	if sts, _, err := parser.New().Parse(q, "", ""); err == nil && len(sts) > 1 {
		var before, after []aRow
		var last driver.Result
		total := int64(0)
		for _, st := range sts {
			r, err := c.execOne(st, q, args)
			if err != nil {
				return nil, err
			}
			last = r
			if ar, ok := r.(aResult); ok {
				total += ar.affected
			}
			for i, b := range d.changedBefore {
				seenAt := -1
				for j := range before {
					if d.sameKey(before[j].cells, b.cells) {
						seenAt = j
					}
				}
				var a aRow
				if i < len(d.changedAfter) {
					a = d.changedAfter[i]
				}
				if seenAt < 0 {
					before = append(before, b)
					after = append(after, a)
				} else {
					after[seenAt] = a
				}
			}
		}
		d.changedBefore = before
		d.changedAfter = nil
		for _, a := range after {
			if a.present {
				d.changedAfter = append(d.changedAfter, a)
			}
		}
		_ = last
		return aResult{affected: total}, nil
	}
	st := d.parse(q)
	if st == nil {
		return nil, errors.New(d.bad)
	}
	return c.execOne(st, q, args)
}

func (d *aDB) sameKey(a, b []int64) bool {
	for _, p := range d.pk {
		if a[p] != b[p] {
			return false
		}
	}
	return true
}

func (c *aConn) execOne(st ast.StmtNode, q string, args []driver.NamedValue) (driver.Result, error) {
	d := c.d
	d.changedBefore, d.changedAfter = nil, nil
	switch x := st.(type) {
	case *ast.UpdateStmt:
		d.lastKind = "update"
		n := int64(0)
		for _, i := range d.matching(x.Where, x.Order, x.Limit, args) {
			r := &d.rows[i]
			before := r.clone()
			e := &aEval{d: d, row: &before, args: args}
			for _, as := range x.List {
				cidx := d.col(as.Column.Name.O)
				if cidx < 0 {
					d.bad = "unknown column in SET"
					return nil, errors.New(d.bad)
				}
				d.setCols[cidx] = true
				nv := e.eval(as.Expr)
				if nv == nil && !d.isNullable(cidx) {
					return nil, errors.New("Error 1048: Column cannot be null")
				}
				r.set(cidx, nv)
			}
			if e.bad != "" {
				d.bad = e.bad
			}
			d.changedBefore = append(d.changedBefore, before)
			d.changedAfter = append(d.changedAfter, r.clone())
			n++
		}
		return aResult{affected: n}, nil
	case *ast.DeleteStmt:
		d.lastKind = "delete"
		n := int64(0)
		for _, i := range d.matching(x.Where, x.Order, x.Limit, args) {
			r := &d.rows[i]
			d.changedBefore = append(d.changedBefore, r.clone())
			r.present = false
			n++
		}
		return aResult{affected: n}, nil
	case *ast.InsertStmt:
		d.lastKind = "insert"
		var colIdx []int
		for _, cn := range x.Columns {
			colIdx = append(colIdx, d.col(cn.Name.O))
		}
		if len(x.Columns) == 0 {
			for k := range d.cols {
				colIdx = append(colIdx, k)
			}
		}
		first := int64(0)
		n := int64(0)
		for _, vals := range x.Lists {
			if len(vals) != len(colIdx) {
				d.bad = "column count does not match value count"
				return nil, errors.New(d.bad)
			}
			nr := aRow{cells: make([]int64, len(d.cols)), null: make([]bool, len(d.cols)), present: true}
			for k := range d.cols {
				nr.null[k] = d.isNullable(k) // a column that is not listed takes its default: NULL where allowed
			}
			given := make([]bool, len(d.cols))
			e := &aEval{d: d, args: args}
			for j, v := range vals {
				if colIdx[j] < 0 {
					d.bad = "unknown column in INSERT"
					return nil, errors.New(d.bad)
				}
				if _, isDefault := v.(*ast.DefaultExpr); isDefault {
					continue
				}
				ev := e.eval(v)
				if ev == nil {
					if colIdx[j] != d.auto && !d.isNullable(colIdx[j]) {
						return nil, errors.New("Error 1048: Column cannot be null")
					}
					if d.isNullable(colIdx[j]) {
						nr.set(colIdx[j], nil)
					}
					continue
				}
				nr.set(colIdx[j], ev)
				given[colIdx[j]] = true
				d.setCols[colIdx[j]] = true
			}
			if e.bad != "" {
				d.bad = e.bad
			}
			if d.auto >= 0 && !given[d.auto] {
				nr.cells[d.auto] = d.nextAuto
				if first == 0 {
					first = d.nextAuto
				}
				if d.autoStep > 0 {
					d.nextAuto += d.autoStep
				} else {
					d.nextAuto++
				}
			}
			// duplicate key?
			dup := -1
			for i := range d.rows {
				if !d.rows[i].present {
					continue
				}
				same := true
				for _, p := range d.pk {
					if d.rows[i].cells[p] != nr.cells[p] {
						same = false
					}
				}
				if same {
					dup = i
				}
			}
			if dup >= 0 {
				if len(x.OnDuplicate) == 0 {
					return nil, errors.New("Error 1062: Duplicate entry")
				}
				r := &d.rows[dup]
				before := r.clone()
				ue := &aEval{d: d, row: &before, args: args}
				for _, as := range x.OnDuplicate {
					cidx := d.col(as.Column.Name.O)
					nv := ue.eval(as.Expr)
					if nv == nil && !d.isNullable(cidx) {
						return nil, errors.New("Error 1048: Column cannot be null")
					}
					r.set(cidx, nv)
				}
				if ue.bad != "" {
					d.bad = ue.bad
				}
				d.changedBefore = append(d.changedBefore, before)
				d.changedAfter = append(d.changedAfter, r.clone())
				n += 2
				continue
			}
			d.rows = append(d.rows, nr)
			d.changedAfter = append(d.changedAfter, nr.clone())
			n++
		}
		return aResult{affected: n, lastID: first}, nil
	}
	d.bad = "adb: unexpected statement " + q
	return nil, errors.New(d.bad)
}

type aRows struct {
	cols []string
	data [][]driver.Value
	pos  int
}

func (r *aRows) Columns() []string { return r.cols }
func (r *aRows) Close() error      { return nil }
func (r *aRows) Next(dest []driver.Value) error {
	if r.pos >= len(r.data) {
		return io.EOF
	}
	copy(dest, r.data[r.pos])
	r.pos++
	return nil
}

func (c *aConn) QueryContext(ctx context.Context, q string, args []driver.NamedValue) (driver.Rows, error) {
	d := c.d
	d.journal = append(d.journal, q)
	k := d.stmts
	d.stmts++
	if k == d.failAt {
		d.journalFailed = "statement"
		return nil, errors.New("injected database failure")
	}
	if d.savepointStmt(q) {
		return &aRows{}, nil
	}
	st := d.parse(q)
	sel, ok := st.(*ast.SelectStmt)
	if !ok {
		if d.bad == "" {
			d.bad = "adb: unexpected query " + q
		}
		return nil, errors.New(d.bad)
	}
	// field list
	var fields []int
	if sel.Fields != nil {
		for _, f := range sel.Fields.Fields {
			if f.WildCard != nil {
				for k := range d.cols {
					fields = append(fields, k)
				}
				continue
			}
			cn, ok := f.Expr.(*ast.ColumnNameExpr)
			if !ok {
				d.bad = "adb: unsupported select field in " + q
				return nil, errors.New(d.bad)
			}
			if cn.Name.Name.O == "*" {
				for k := range d.cols {
					fields = append(fields, k)
				}
				continue
			}
			cidx := d.col(cn.Name.Name.O)
			if cidx < 0 {
				d.bad = "adb: unknown column " + cn.Name.Name.O + " in " + q
				return nil, errors.New(d.bad)
			}
			fields = append(fields, cidx)
		}
	}
	out := &aRows{}
	for _, f := range fields {
		out.cols = append(out.cols, d.cols[f])
	}
	for _, i := range d.matching(sel.Where, sel.OrderBy, sel.Limit, args) {
		r := &d.rows[i]
		var vals []driver.Value
		for _, f := range fields {
			vals = append(vals, r.get(f))
		}
		out.data = append(out.data, vals)
	}
	return out, nil
}

// savepointStmt handles SAVEPOINT x / ROLLBACK TO x outside the parser (the
// statement text seata-go builds ends in ";;"; whether a server tolerates that
// is outside the stub).
func (d *aDB) savepointStmt(q string) bool {
	lq := strings.ToLower(strings.TrimSpace(q))
	if strings.HasPrefix(lq, "savepoint ") {
		d.savepoint = make([]aRow, len(d.rows))
		for i, r := range d.rows {
			d.savepoint[i] = r.clone()
		}
		d.savepoints++
		return true
	}
	if strings.HasPrefix(lq, "rollback to ") {
		if d.savepoint != nil {
			d.rows = d.savepoint
			d.savepoint = nil
		}
		d.savepointRollbacks++
		return true
	}
	return false
}

// matching returns the indices of the present rows the WHERE clause selects,
// in ORDER BY order (table order otherwise, as a stable sort keeps it), cut by LIMIT.
func (d *aDB) matching(where ast.ExprNode, order *ast.OrderByClause, limit *ast.Limit, args []driver.NamedValue) []int {
	var idx []int
	for i := range d.rows {
		r := &d.rows[i]
		if r.present && d.where(where, r, args) {
			idx = append(idx, i)
		}
	}
	if order != nil {
		less := func(a, b int) bool { // strictly before
			for _, it := range order.Items {
				ea := &aEval{d: d, row: &d.rows[a], args: args}
				eb := &aEval{d: d, row: &d.rows[b], args: args}
				xa, xb := ea.eval(it.Expr), eb.eval(it.Expr)
				if ea.bad != "" || eb.bad != "" {
					d.bad = "adb: unsupported ORDER BY item"
				}
				if (xa == nil) != (xb == nil) {
					// NULL sorts before every value (after, in descending order)
					return (xa == nil) != it.Desc
				}
				va, vb := aInt(xa), aInt(xb)
				if va == vb {
					continue
				}
				if it.Desc {
					return va > vb
				}
				return va < vb
			}
			return false
		}
		// insertion sort (stable)
		for i := 1; i < len(idx); i++ {
			for j := i; j > 0 && less(idx[j], idx[j-1]); j-- {
				idx[j], idx[j-1] = idx[j-1], idx[j]
			}
		}
	}
	if limit != nil {
		e := &aEval{d: d, args: args}
		if limit.Offset != nil {
			off := int(aInt(e.eval(limit.Offset)))
			if off > len(idx) {
				off = len(idx)
			}
			if off > 0 {
				idx = idx[off:]
			}
		}
		if limit.Count != nil {
			n := int(aInt(e.eval(limit.Count)))
			if n >= 0 && n < len(idx) {
				idx = idx[:n]
			}
		}
		if e.bad != "" {
			d.bad = "adb: unsupported LIMIT"
		}
	}
	return idx
}
