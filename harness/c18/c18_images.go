package sql

// C18 — captured images equal the rows the statement actually changed.
// C03 — lock keys cover every written row; locking reads consult the coordinator.
// Real ATConn.BeginTx/ExecContext/QueryContext, exec.BuildExecutor, ATExecutor
// and the real update / delete / insert / insert-on-duplicate / select-for-
// update executors with the real SQL parser, on the evaluating stub database
// adb (see adb.go).

import (
	"context"
	"database/sql"
	"database/sql/driver"
	"errors"
	"strconv"
	"strings"
	"time"

	"github.com/arana-db/parser/ast"

	"seata.apache.org/seata-go/pkg/datasource/sql/datasource"
	"seata.apache.org/seata-go/pkg/datasource/sql/exec/at"
	"seata.apache.org/seata-go/pkg/datasource/sql/types"
	"seata.apache.org/seata-go/pkg/datasource/sql/undo"
	undomysql "seata.apache.org/seata-go/pkg/datasource/sql/undo/mysql"
	"seata.apache.org/seata-go/pkg/protocol/message"
	"seata.apache.org/seata-go/pkg/remoting/getty"
	"seata.apache.org/seata-go/pkg/rm"
	"seata.apache.org/seata-go/pkg/tm"
	"seata.apache.org/seata-go/pkg/zzverif/vrt"
)

type aMetaCache struct{ meta *types.TableMeta }

func (c aMetaCache) Init(ctx context.Context, conn *sql.DB) error { return nil }
func (c aMetaCache) Destroy() error                               { return nil }
func (c aMetaCache) GetTableMeta(ctx context.Context, dbName, table string) (*types.TableMeta, error) {
	return c.meta, nil
}

func aTableMeta(d *aDB) *types.TableMeta {
	m := &types.TableMeta{TableName: d.table, Columns: map[string]types.ColumnMeta{}, Indexs: map[string]types.IndexMeta{}, ColumnNames: d.cols}
	var pkCols []types.ColumnMeta
	for k, c := range d.cols {
		cm := types.ColumnMeta{Table: d.table, ColumnName: c, ColumnType: "bigint", DatabaseTypeString: "BIGINT", DatabaseType: int32(types.JDBCTypeBigInt), Autoincrement: k == d.auto}
		if k == d.auto {
			cm.Extra = "auto_increment"
		}
		if d.isNullable(k) {
			cm.IsNullable = 1
		}
		m.Columns[c] = cm
		if d.isPK(k) {
			pkCols = append(pkCols, cm)
		}
	}
	// as the MySQL metadata loader builds it: ColumnName is the first column of the index
	m.Indexs["PRIMARY"] = types.IndexMeta{Table: d.table, Name: "PRIMARY", ColumnName: pkCols[0].ColumnName, IType: types.IndexTypePrimaryKey, Columns: pkCols}
	return m
}

type c18World struct {
	d           *aDB
	c           *ATConn
	ctx         context.Context
	lockQueries []string
	lockable    bool
}

// c18Setup: table t(id pk, a, b) [or composite key (id, uid), a] with two rows
// of symbolic non-key cells and concrete keys.
// c18WantNull: column b of the single-key table is nullable and starts as NULL or a
// value in each row (set by the callers for the "null-" templates).
var c18WantNull bool

func c18Setup(composite bool, auto ...bool) *c18World {
	at.Init()
	undo.RegisterUndoLogManager(undomysql.NewUndoLogManager())
	undo.UndoConfig.OnlyCareUpdateColumns = vrt.Choice("onlyCareUpdateColumns", 2) == 1
	d := &aDB{table: "t", cols: []string{"id", "a", "b"}, pk: []int{0}, auto: -1, failAt: -1, nextAuto: 100}
	if composite {
		d.cols, d.pk = []string{"id", "uid", "a"}, []int{0, 1}
	}
	if len(auto) > 0 && auto[0] {
		d.auto = 0 // id is AUTO_INCREMENT
	}
	if c18WantNull && !composite {
		d.nullable = []bool{false, false, true}
	}
	mk := func(tag string, key int64) aRow {
		r := aRow{cells: make([]int64, len(d.cols)), present: true}
		for k, n := range d.cols {
			if d.isPK(k) {
				r.cells[k] = key + int64(k)
			} else if d.isNullable(k) && vrt.Bool(tag+"."+n+".null") {
				r.set(k, nil)
			} else {
				r.cells[k] = vrt.Int64(tag + "." + n)
			}
		}
		return r
	}
	d.rows = []aRow{mk("row1", 10), mk("row2", 20)}
	if vrt.Param("rows", 2) >= 3 {
		d.rows = append(d.rows, mk("row3", 50))
	}
	datasource.RegisterTableCache(types.DBTypeMySQL, aMetaCache{aTableMeta(d)})
	w := &c18World{d: d, lockable: true}
	vrt.Redirect((*getty.GettyRemotingClient).SendSyncRequest, func(_ *getty.GettyRemotingClient, msg interface{}) (interface{}, error) {
		if q, ok := msg.(message.GlobalLockQueryRequest); ok {
			w.lockQueries = append(w.lockQueries, q.LockKey)
			return message.GlobalLockQueryResponse{AbstractTransactionResponse: message.AbstractTransactionResponse{
				AbstractResultMessage: message.AbstractResultMessage{ResultCode: message.ResultCodeSuccess}}, Lockable: w.lockable}, nil
		}
		return nil, errors.New("unexpected coordinator request")
	})
	mgr := &ATSourceManager{rmRemoting: rm.GetRMRemotingInstance()}
	rm.GetRmCacheInstance().RegisterResourceManager(mgr)
	res := &DBResource{resourceID: "res", dbType: types.DBTypeMySQL}
	w.c = &ATConn{Conn: &Conn{res: res, txCtx: types.NewTxCtx(), targetConn: &aConn{d}, autoCommit: true, dbType: types.DBTypeMySQL, dbName: "db"}}
	w.ctx = tm.InitSeataContext(context.Background())
	tm.SetXID(w.ctx, "xid-1")
	return w
}

type c18Stmt struct {
	name      string
	query     string
	nargs     int
	valid     bool // the statement must be accepted (false: it must be rejected)
	composite bool
	keyArgs   map[int]int64 // arguments bound to key columns of inserted rows are concrete
}

var c18Stmts = []c18Stmt{
	{"update-by-key", "UPDATE t SET a = ? WHERE id = ?", 2, true, false, nil},
	{"update-two-columns-parens", "UPDATE t SET a = ?, b = ? WHERE (id = ?) AND b = ?", 4, true, false, nil},
	{"update-in-list", "UPDATE t SET a = 7 WHERE id IN (?, ?)", 2, true, false, nil},
	{"update-between", "UPDATE t SET b = ? WHERE id BETWEEN ? AND ?", 3, true, false, nil},
	{"update-not", "UPDATE t SET a = ? WHERE NOT (b = ?)", 2, true, false, nil},
	{"update-or-compare", "UPDATE t SET a = ? WHERE b > ? OR a <= ?", 3, true, false, nil},
	{"update-tested-expr-marker", "UPDATE t SET a = ? WHERE ? IN (a, b)", 2, true, false, nil},
	{"update-arith", "UPDATE t SET a = a + ? WHERE b = ? - 1", 2, true, false, nil},
	{"update-key-listed-unchanged", "UPDATE t SET a = ?, id = 10, b = ? WHERE id = 10", 2, true, false, nil},
	{"update-primary-key", "UPDATE t SET id = ? WHERE id = ?", 2, false, false, nil},
	{"delete-by-key", "DELETE FROM t WHERE id = ?", 1, true, false, nil},
	{"delete-parens-or", "DELETE FROM t WHERE (a = ?) OR b = ?", 2, true, false, nil},
	{"insert-one", "INSERT INTO t (id, a, b) VALUES (?, ?, ?)", 3, true, false, map[int]int64{0: 30}},
	{"insert-reordered-two-rows", "INSERT INTO t (a, id, b) VALUES (?, ?, ?), (?, ?, 5)", 5, true, false, map[int]int64{1: 30, 4: 40}},
	// literals of every kind before a key column bound to an argument
	{"insert-number-before-key-arg", "INSERT INTO t (a, b, id) VALUES (7, ?, ?), (?, ?, ?)", 5, true, false, map[int]int64{1: 30, 4: 40}},
	{"insert-mixed-literals-before-key-arg", "INSERT INTO t (a, b, id) VALUES (?, 7, ?), (-3, 4 + 1, ?)", 3, true, false, map[int]int64{1: 30, 2: 40}},
	{"upsert-number-before-key-arg", "INSERT INTO t (a, b, id) VALUES (7, ?, ?), (?, 8, ?) ON DUPLICATE KEY UPDATE b = ?", 5, true, false, map[int]int64{1: 10, 3: 30}},
	{"may-reject-upsert-moves-key-other-case", "INSERT INTO t (id, a, b) VALUES (10, ?, ?) ON DUPLICATE KEY UPDATE ID = ID + 5", 2, true, false, nil},
	{"may-reject-upsert-moves-key", "INSERT INTO t (id, a, b) VALUES (10, ?, ?) ON DUPLICATE KEY UPDATE id = id + 5", 2, true, false, nil},
	{"upsert-new-row", "INSERT INTO t (id, a, b) VALUES (?, ?, ?) ON DUPLICATE KEY UPDATE a = ?", 4, true, false, map[int]int64{0: 30}},
	{"upsert-existing-row", "INSERT INTO t (id, a, b) VALUES (?, ?, ?) ON DUPLICATE KEY UPDATE a = ?", 4, true, false, map[int]int64{0: 10}},
	{"upsert-mixed-two-rows", "INSERT INTO t (id, a, b) VALUES (?, ?, ?), (?, ?, ?) ON DUPLICATE KEY UPDATE a = ?", 7, true, false, map[int]int64{0: 10, 3: 30}},
	{"update-composite-key", "UPDATE t SET a = ? WHERE id = ? AND uid = ?", 3, true, true, nil},
	{"delete-composite-key", "DELETE FROM t WHERE uid = ?", 1, true, true, nil},
	{"insert-composite-reordered", "INSERT INTO t (uid, a, id) VALUES (?, ?, ?)", 3, true, true, map[int]int64{0: 31, 2: 30}},
	{"upsert-composite-mixed-colliding-key-text", "INSERT INTO t (id, uid, a) VALUES (10, 11, ?), (101, 1, ?) ON DUPLICATE KEY UPDATE a = ?", 3, true, true, nil},
	{"insert-composite-two-rows", "INSERT INTO t (id, uid, a) VALUES (?, ?, ?), (?, ?, ?)", 6, true, true, map[int]int64{0: 30, 1: 31, 3: 40, 4: 41}},
	{"update-order-limit", "UPDATE t SET a = ? WHERE b > ? ORDER BY a DESC LIMIT 1", 2, true, false, nil},
	{"delete-order-limit-arg", "DELETE FROM t WHERE a <> ? ORDER BY b LIMIT ?", 2, true, false, map[int]int64{1: 1}},
	{"delete-all-rows", "DELETE FROM t WHERE a = a", 0, true, false, nil},
	// an AUTO_INCREMENT key (see c18AutoKey): generated, NULL, DEFAULT or explicit
	{"insert-auto-one", "INSERT INTO t (a, b) VALUES (?, ?)", 2, true, false, nil},
	{"insert-auto-batch", "INSERT INTO t (a, b) VALUES (?, ?), (?, 8)", 3, true, false, nil},
	{"insert-auto-null-key", "INSERT INTO t (id, a, b) VALUES (NULL, ?, ?)", 2, true, false, nil},
	{"insert-auto-default-key", "INSERT INTO t (id, a, b) VALUES (DEFAULT, ?, 5)", 1, true, false, nil},
	{"insert-auto-explicit-key", "INSERT INTO t (id, a, b) VALUES (?, ?, ?)", 3, true, false, map[int]int64{0: 30}},
	// batches go through the multi-statement executors (literals only: a prepared batch cannot bind arguments)
	{"multi-update-two-rows", "UPDATE t SET a = 5 WHERE id = 10; UPDATE t SET b = 6 WHERE id = 20", 0, true, false, nil},
	{"multi-update-same-row", "UPDATE t SET a = 5 WHERE id = 10; UPDATE t SET a = 7, b = 6 WHERE id = 10", 0, true, false, nil},
	{"multi-update-by-data", "UPDATE t SET a = 5 WHERE b > 3; UPDATE t SET b = 6 WHERE a < 9", 0, true, false, nil},
	{"multi-delete", "DELETE FROM t WHERE id = 10; DELETE FROM t WHERE a > 4", 0, true, false, nil},
	{"multi-delete-unconditional-first", "DELETE FROM t; DELETE FROM t WHERE id = 10", 0, true, false, nil},
	{"multi-delete-unconditional-last", "DELETE FROM t WHERE a > 4; DELETE FROM t", 0, true, false, nil},
	{"update-no-where", "UPDATE t SET b = ?", 1, true, false, nil},
	// a batch with an UPDATE that has no WHERE: refused, or recorded completely
	{"may-reject-multi-update-unconditional-last", "UPDATE t SET a = 5 WHERE id = 10; UPDATE t SET b = 6", 0, true, false, nil},
	{"may-reject-multi-update-unconditional-first", "UPDATE t SET b = 6; UPDATE t SET a = 5 WHERE id = 10", 0, true, false, nil},
	// column b nullable, NULL or a value in each row (see c18WantNull)
	{"null-update-set-literal", "UPDATE t SET b = NULL WHERE id = ?", 1, true, false, nil},
	{"null-update-set-arg", "UPDATE t SET b = ?, a = ? WHERE id = ?", 3, true, false, nil},
	{"null-update-where-is-null", "UPDATE t SET a = ? WHERE b IS NULL", 1, true, false, nil},
	{"null-update-where-not-equal", "UPDATE t SET a = ? WHERE NOT (b = ?)", 2, true, false, nil},
	{"null-update-arith", "UPDATE t SET b = b + ? WHERE id = 10", 1, true, false, nil},
	{"null-update-order-by-nullable", "UPDATE t SET a = ? WHERE a > ? ORDER BY b LIMIT 1", 2, true, false, nil},
	{"null-delete-where-or", "DELETE FROM t WHERE b > ? OR a = ?", 2, true, false, nil},
	{"null-delete-is-not-null", "DELETE FROM t WHERE b IS NOT NULL", 0, true, false, nil},
	{"null-insert-literal", "INSERT INTO t (id, a, b) VALUES (?, ?, NULL)", 2, true, false, map[int]int64{0: 30}},
	{"null-insert-omitted", "INSERT INTO t (id, a) VALUES (?, ?)", 2, true, false, map[int]int64{0: 30}},
	{"null-insert-arg", "INSERT INTO t (id, a, b) VALUES (?, ?, ?)", 3, true, false, map[int]int64{0: 30}},
	{"null-insert-null-before-key-arg", "INSERT INTO t (a, b, id) VALUES (?, NULL, ?), (?, ?, ?)", 5, true, false, map[int]int64{1: 30, 4: 40}},
	{"null-upsert-set-null", "INSERT INTO t (id, a, b) VALUES (?, ?, ?) ON DUPLICATE KEY UPDATE b = NULL", 3, true, false, map[int]int64{0: 10}},
	{"delete-no-where", "DELETE FROM t", 0, true, false, nil},
}

// c02SameRowsLite: same rows in the same slots
func c02SameRowsLite(a, b []aRow) bool {
	if len(a) != len(b) {
		return false
	}
	for i := range a {
		if a[i].present != b[i].present || (a[i].present && !aSameRow(a[i], b[i])) {
			return false
		}
	}
	return true
}

func c18AutoKey(name string) bool { return strings.HasPrefix(name, "insert-auto-") }

// the templates over the nullable column, and the arguments of theirs that are NULL
func c18NullTemplate(name string) bool { return strings.HasPrefix(name, "null-") }

var c18NullArgs = map[string]map[int]bool{
	"null-update-set-arg": {0: true},
	"null-insert-arg":     {2: true},
}

func c18Args(st c18Stmt) []driver.NamedValue { return c18ArgsTagged(st, "") }

func c18ArgsTagged(st c18Stmt, prefix string) []driver.NamedValue {
	args := make([]driver.NamedValue, st.nargs)
	names := []string{"arg0", "arg1", "arg2", "arg3", "arg4", "arg5", "arg6"}
	for i := range args {
		switch kv, ok := st.keyArgs[i]; {
		case ok:
			args[i] = driver.NamedValue{Ordinal: i + 1, Value: kv}
		case c18NullArgs[st.name][i]:
			args[i] = driver.NamedValue{Ordinal: i + 1, Value: nil}
		default:
			args[i] = driver.NamedValue{Ordinal: i + 1, Value: vrt.Int64(prefix + names[i])}
		}
	}
	return args
}

func c18RowKey(d *aDB, cells []int64) string {
	var parts []string
	for _, p := range d.pk {
		parts = append(parts, strconv.FormatInt(cells[p], 10))
	}
	return strings.Join(parts, "_")
}

func c18Union(imgs []*types.RecordImage) *types.RecordImage {
	u := &types.RecordImage{}
	for _, im := range imgs {
		if im == nil {
			continue
		}
		u.TableName, u.SQLType, u.TableMeta = im.TableName, im.SQLType, im.TableMeta
		u.Rows = append(u.Rows, im.Rows...)
	}
	return u
}

// image row -> cells by column name (only the columns present in the image)
func c18ImageMatches(d *aDB, img *types.RecordImage, want []aRow, full bool) bool {
	n := 0
	if img != nil {
		n = len(img.Rows)
	}
	if n != len(want) {
		return false
	}
	for _, wr := range want {
		found := false
		for _, ir := range img.Rows {
			// same key?
			sameKey := true
			seen := make([]bool, len(d.cols)) // a column may be listed more than once
			for _, col := range ir.Columns {
				k := d.col(col.ColumnName)
				if k >= 0 {
					seen[k] = true
				}
				if k >= 0 && d.isPK(k) && col.Value != driver.Value(wr.get(k)) {
					sameKey = false
				}
			}
			for _, p := range d.pk {
				if !seen[p] {
					sameKey = false
				}
			}
			if !sameKey {
				continue
			}
			found = true
			if full {
				for k := range seen {
					if !seen[k] {
						return false
					}
				}
			} else {
				// only the updated columns are tracked: every column the statement assigns must be there
				for k := range seen {
					if d.setCols[k] && !seen[k] {
						return false
					}
				}
			}
			for _, col := range ir.Columns {
				k := d.col(col.ColumnName)
				if k < 0 || col.Value != driver.Value(wr.get(k)) {
					return false
				}
			}
		}
		if !found {
			return false
		}
	}
	return true
}

// lock keys collected in the transaction context name exactly these rows
func c18LockKeysCover(w *c18World, rows []aRow) bool {
	have := map[string]bool{}
	for lk := range w.c.txCtx.LockKeys {
		colon := strings.Index(lk, ":")
		if colon < 0 || lk[:colon] != w.d.table {
			return false
		}
		for _, rk := range strings.Split(lk[colon+1:], ",") {
			if rk != "" {
				have[rk] = true
			}
		}
	}
	for _, r := range rows {
		if !have[c18RowKey(w.d, r.cells)] {
			return false
		}
	}
	return true
}

func VerifC18Statement() { c18Run(true, false) }

// VerifC03LockKeys: same programs, asserting the lock-key clause of C03.
func VerifC03LockKeys() { c18Run(false, true) }

func c18Run(checkImages, checkLocks bool) {
	k := vrt.Choice("statement", len(c18Stmts))
	st := c18Stmts[k]
	c18WantNull = c18NullTemplate(st.name)
	w := c18Setup(st.composite, c18AutoKey(st.name))
	args := c18Args(st)
	tx, err := w.c.BeginTx(w.ctx, driver.TxOptions{})
	vrt.Assert(err == nil && tx != nil, "c18/begin-ok")
	var res driver.Result
	panicked := false
	func() {
		defer func() {
			if recover() != nil {
				panicked = true
			}
		}()
		res, err = w.c.ExecContext(w.ctx, st.query, args)
	}()
	vrt.Observe("stub.bad", w.d.bad)
	vrt.Observe("stub.journal", strings.Join(w.d.journal, " || "))
	if err != nil {
		vrt.Observe("error", err.Error())
	}
	vrt.Reach("c18/" + st.name)
	vrt.Assert(!panicked, "c18/no-panic/"+st.name)
	if panicked {
		return
	}
	if !st.valid {
		// UPDATE t SET id = ? WHERE id = ?: rejected whenever it would really change a key
		newID, oldID := args[0].Value.(int64), args[1].Value.(int64)
		if newID != oldID && (oldID == 10 || oldID == 20) && checkImages {
			vrt.Reach("c18/key-change")
			vrt.Assert(err != nil, "c18/primary-key-update-rejected/"+st.name)
		}
		return
	}
	if err != nil && w.d.lastKind == "insert" && strings.Contains(err.Error(), "1062") {
		// the business statement itself failed in the database (duplicate key): nothing to record
		return
	}
	if err != nil && strings.HasPrefix(st.name, "may-reject-") && len(w.d.changedBefore) == 0 && len(w.d.changedAfter) == 0 {
		// refused before anything was written: as good as recording it
		vrt.Reach("c18/refused")
		return
	}
	if checkImages {
		vrt.Assert(w.d.bad == "", "c18/image-statements-are-well-formed/"+st.name)
		vrt.Assert(err == nil && res != nil, "c18/statement-accepted/"+st.name)
	}
	if err != nil || w.d.bad != "" {
		return
	}
	befores, afters := w.c.txCtx.RoundImages.BeofreImages(), w.c.txCtx.RoundImages.AfterImages()
	// a statement may be recorded as one image pair or several (batches; upserts that update
	// some rows and insert others): the images are compared as their union
	befores, afters = []*types.RecordImage{c18Union(befores)}, []*types.RecordImage{c18Union(afters)}
	vrt.Assert(len(befores) == 1 && len(afters) == 1, "c18/one-image-pair/"+st.name)
	if len(befores) != 1 || len(afters) != 1 {
		return
	}
	// tracking only the updated columns: an UPDATE records the assigned columns, an INSERT
	// the listed ones (each plus the key); a DELETE the whole row
	full := !undo.UndoConfig.OnlyCareUpdateColumns || w.d.lastKind == "delete"
	upsertUpdated := w.d.lastKind == "insert" && len(w.d.changedBefore) > 0
	if upsertUpdated {
		full = true
	}
	if checkImages {
		vrt.Assert(c18ImageMatches(w.d, befores[0], w.d.changedBefore, full), "c18/before-image=rows-about-to-change/"+st.name)
		vrt.Assert(c18ImageMatches(w.d, afters[0], w.d.changedAfter, full), "c18/after-image=rows-after-the-change/"+st.name)
	}
	// C03: every written row is named by a lock key
	written := w.d.changedBefore
	if w.d.lastKind == "insert" {
		written = w.d.changedAfter
	}
	if len(written) > 0 && checkLocks {
		vrt.Reach("c03/rows-written")
		vrt.Assert(c18LockKeysCover(w, written), "c03/lock-keys-cover-written-rows/"+st.name)
	}
}

// VerifC03TwoStatements: two statements in one local transaction, the second over
// the same or other rows, accepted or rejected by the database (the application
// handles the error and commits): the keys collected for the transaction still
// name every row the first statement wrote, and the second's when it succeeded.
func VerifC03TwoStatements() {
	firsts := []c18Stmt{
		{"update-by-key", "UPDATE t SET a = ? WHERE id = ?", 2, true, false, map[int]int64{1: 10}},
		{"delete-by-key", "DELETE FROM t WHERE id = ?", 1, true, false, map[int]int64{0: 20}},
		{"insert-one", "INSERT INTO t (id, a, b) VALUES (?, ?, ?)", 3, true, false, map[int]int64{0: 30}},
	}
	seconds := []c18Stmt{
		{"update-same-row", "UPDATE t SET b = ? WHERE id = 10", 1, true, false, nil},
		{"update-by-data", "UPDATE t SET b = ? WHERE a > ?", 2, true, false, nil},
		{"delete-other-row", "DELETE FROM t WHERE id = 20", 0, true, false, nil},
		{"upsert-same-row", "INSERT INTO t (id, a, b) VALUES (10, ?, ?) ON DUPLICATE KEY UPDATE a = ?", 3, true, false, nil},
		{"insert-same-key", "INSERT INTO t (id, a, b) VALUES (30, ?, ?)", 2, true, false, nil},
	}
	c18WantNull = false
	w := c18Setup(false)
	f, s := firsts[vrt.Choice("first", len(firsts))], seconds[vrt.Choice("second", len(seconds))]
	tx, err := w.c.BeginTx(w.ctx, driver.TxOptions{})
	vrt.Assert(err == nil && tx != nil, "c03/two/begin-ok")
	_, err = w.c.ExecContext(w.ctx, f.query, c18Args(f))
	vrt.Assert(err == nil && w.d.bad == "", "c03/two/first-statement-accepted/"+f.name)
	if err != nil || w.d.bad != "" {
		return
	}
	written := w.d.changedBefore
	if w.d.lastKind == "insert" {
		written = w.d.changedAfter
	}
	written = append([]aRow(nil), written...)
	if vrt.Bool("second.rejected") {
		w.d.failExec = w.d.execs + 1
	}
	_, err2 := w.c.ExecContext(w.ctx, s.query, c18ArgsTagged(s, "second."))
	vrt.Observe("second.error", err2 != nil)
	if w.d.bad != "" {
		return
	}
	vrt.Reach("c03/two/" + f.name + "+" + s.name)
	if err2 == nil {
		w2 := w.d.changedBefore
		if w.d.lastKind == "insert" && len(w.d.changedBefore) == 0 {
			w2 = w.d.changedAfter
		}
		written = append(written, w2...)
	} else {
		vrt.Reach("c03/two/second-failed")
	}
	if len(written) > 0 {
		vrt.Assert(c18LockKeysCover(w, written), "c03/two/lock-keys-cover-every-written-row/"+f.name+"+"+s.name)
	}
}

// VerifC18AutoStep: two batch INSERTs with generated keys, one after the other in one
// process, on servers (or sessions) whose auto_increment_increment differs: each after
// image holds exactly the rows its own statement inserted.
func VerifC18AutoStep() {
	c18WantNull = false
	steps := []int64{1, 2, 5}
	st := c18Stmt{"insert-auto-batch", "INSERT INTO t (a, b) VALUES (?, ?), (?, 8), (7, ?)", 4, true, false, nil}
	for round := 0; round < 2; round++ {
		w := c18Setup(false, true)
		w.d.autoStep = steps[vrt.Choice([]string{"first.step", "second.step"}[round], len(steps))]
		tag := []string{"first", "second"}[round]
		tx, err := w.c.BeginTx(w.ctx, driver.TxOptions{})
		vrt.Assert(err == nil && tx != nil, "c18/autostep/begin-ok")
		_, err = w.c.ExecContext(w.ctx, st.query, c18ArgsTagged(st, tag+"."))
		vrt.Observe(tag+".journal", strings.Join(w.d.journal, " || "))
		vrt.Assert(err == nil && w.d.bad == "", "c18/autostep/statement-accepted/"+tag)
		if err != nil || w.d.bad != "" {
			return
		}
		afters := []*types.RecordImage{c18Union(w.c.txCtx.RoundImages.AfterImages())}
		vrt.Reach("c18/autostep/" + tag)
		vrt.Assert(c18ImageMatches(w.d, afters[0], w.d.changedAfter, true), "c18/autostep/after-image=rows-inserted/"+tag)
		vrt.Assert(c18LockKeysCover(w, w.d.changedAfter), "c18/autostep/lock-keys-cover-inserted-rows/"+tag)
	}
}

// VerifC03AutoStep: the lock-key clause of the same runs (C03's spec lists it).
func VerifC03AutoStep() { VerifC18AutoStep() }

var c03Queries = []string{
	"SELECT * FROM t WHERE a > ? FOR UPDATE",
	"SELECT * FROM t WHERE a > ? ORDER BY b DESC LIMIT 1 FOR UPDATE",
	"SELECT id, a, b FROM t WHERE NOT (a > ?) ORDER BY a FOR UPDATE",
}

// VerifC03SelectForUpdate: a locking read returns rows only after the
// coordinator confirmed they are lockable.
func VerifC03SelectForUpdate() {
	w := c18Setup(false)
	w.lockable = vrt.Choice("lockable", 2) == 1
	at.LockConfig = rm.LockConfig{RetryInterval: 10 * time.Millisecond, RetryTimes: 2}
	args := []driver.NamedValue{{Ordinal: 1, Value: vrt.Int64("arg0")}}
	var err error
	inLocalTx := vrt.Choice("inLocalTx", 2) == 1
	if inLocalTx {
		var tx driver.Tx
		tx, err = w.c.BeginTx(w.ctx, driver.TxOptions{})
		vrt.Assert(err == nil && tx != nil, "c03/begin-ok")
	} else {
		vrt.Reach("c03/sfu-autocommit")
	}
	var rows driver.Rows
	panicked := false
	form := vrt.Choice("sfu.form", len(c03Queries))
	q := c03Queries[form]
	func() {
		defer func() {
			if recover() != nil {
				panicked = true
			}
		}()
		rows, err = w.c.QueryContext(w.ctx, q, args)
	}()
	vrt.Observe("stub.bad", w.d.bad)
	if err != nil {
		vrt.Observe("sfu.err", err.Error())
	}
	vrt.Reach("c03/select-for-update")
	vrt.Assert(!panicked, "c03/sfu-no-panic")
	if panicked {
		return
	}
	// the rows the locking read selects (the stub's own evaluation of the statement)
	var matched []aRow
	if sel, ok := w.d.parse(q).(*ast.SelectStmt); ok {
		for _, i := range w.d.matching(sel.Where, sel.OrderBy, sel.Limit, args) {
			matched = append(matched, w.d.rows[i])
		}
	}
	if err == nil && rows != nil {
		n := 0
		dest := make([]driver.Value, 3)
		sameRows := true
		for rows.Next(dest) == nil {
			if n < len(matched) && dest[0] != driver.Value(matched[n].cells[0]) {
				sameRows = false
			}
			n++
		}
		vrt.Assert(n == len(matched) && sameRows, "c03/sfu-returns-the-matching-rows")
		if len(matched) > 0 {
			vrt.Reach("c03/sfu-rows-returned")
			vrt.Assert(w.lockable, "c03/sfu-rows-only-when-lockable")
			vrt.Assert(len(w.lockQueries) >= 1, "c03/sfu-asks-the-coordinator")
			// the last lock query names every returned row
			lk := w.lockQueries[len(w.lockQueries)-1]
			vrt.Observe("lock.query", lk)
			for _, r := range matched {
				vrt.Assert(strings.Contains(lk+",", ":"+c18RowKey(w.d, r.cells)+",") || strings.Contains(lk+",", ","+c18RowKey(w.d, r.cells)+","), "c03/sfu-lock-query-names-returned-rows")
			}
		}
	} else if len(matched) > 0 && w.lockable {
		vrt.Assert(false, "c03/sfu-lockable-rows-are-returned")
	} else if len(matched) > 0 && !w.lockable {
		vrt.Reach("c03/sfu-conflict")
		vrt.Assert(err != nil, "c03/sfu-conflict-is-an-error")
		// the local row locks taken by the FOR UPDATE read are given back
		if inLocalTx {
			vrt.Assert(w.d.savepoints >= 1 && w.d.savepointRollbacks >= 1, "c03/sfu-conflict-releases-local-locks/savepoint")
		} else {
			vrt.Assert(w.d.txBegins >= 1 && w.d.txRollbacks == w.d.txBegins && w.d.txCommits == 0, "c03/sfu-conflict-releases-local-locks/tx")
		}
	}
}

// VerifC16InGtx (second sentence of C16): inside a global transaction a
// business statement returns what the plain driver returns and leaves the same
// data; the only additional statements the database sees are image queries.
// The same statement runs through the AT proxy on one stub database and
// directly on a twin with identical (symbolic) content.
func VerifC16InGtx() {
	k := vrt.Choice("statement", len(c18Stmts))
	st := c18Stmts[k]
	if !st.valid {
		return
	}
	c18WantNull = c18NullTemplate(st.name)
	w := c18Setup(st.composite, c18AutoKey(st.name))
	// the twin
	twin := &aDB{table: w.d.table, cols: w.d.cols, pk: w.d.pk, nullable: w.d.nullable, auto: w.d.auto, failAt: -1, nextAuto: w.d.nextAuto}
	for _, r := range w.d.rows {
		twin.rows = append(twin.rows, r.clone())
	}
	args := c18Args(st)
	pre := make([]aRow, len(w.d.rows))
	for i, r := range w.d.rows {
		pre[i] = r.clone()
	}
	plainRes, plainErr := (&aConn{twin}).ExecContext(context.Background(), st.query, args)

	tx, err := w.c.BeginTx(w.ctx, driver.TxOptions{})
	vrt.Assert(err == nil && tx != nil, "gtx/begin-ok")
	var res driver.Result
	panicked := false
	func() {
		defer func() {
			if recover() != nil {
				panicked = true
			}
		}()
		res, err = w.c.ExecContext(w.ctx, st.query, args)
	}()
	vrt.Reach("gtx/" + st.name)
	vrt.Assert(!panicked, "gtx/no-panic/"+st.name)
	if panicked || w.d.bad != "" || twin.bad != "" {
		return
	}
	if strings.HasPrefix(st.name, "may-reject-") && err != nil && plainErr == nil && c02SameRowsLite(w.d.rows, pre) {
		// a refusal C18 sanctions (the statement would move a primary key): nothing was written
		vrt.Reach("gtx/sanctioned-refusal")
		return
	}
	vrt.Assert((err != nil) == (plainErr != nil), "gtx/fails-iff-the-plain-driver-fails/"+st.name)
	if err != nil || plainErr != nil {
		return
	}
	pa, _ := plainRes.RowsAffected()
	pl, _ := plainRes.LastInsertId()
	ra, _ := res.RowsAffected()
	rl, _ := res.LastInsertId()
	vrt.Assert(ra == pa && rl == pl, "gtx/same-result/"+st.name)
	// same data
	same := len(w.d.rows) == len(twin.rows)
	for i := 0; same && i < len(twin.rows); i++ {
		a, b := w.d.rows[i], twin.rows[i]
		if a.present != b.present {
			same = false
		}
		if same && a.present && !aSameRow(a, b) {
			same = false
		}
	}
	vrt.Assert(same, "gtx/same-data/"+st.name)
	// nothing but the business statement and SELECTs reached the database
	business := 0
	for _, q := range w.d.journal {
		uq := strings.ToUpper(strings.TrimSpace(q))
		if q == st.query {
			business++
		} else {
			// read-only statements only: image SELECTs and the server-variable lookup of the insert executor
			vrt.Assert(strings.HasPrefix(uq, "SELECT") || strings.HasPrefix(uq, "SHOW VARIABLES"), "gtx/only-image-queries-are-added/"+st.name)
		}
	}
	vrt.Assert(business == 1, "gtx/business-statement-sent-exactly-once/"+st.name)
}

// VerifC16LockingRead (C16, second sentence, queries): inside a global
// transaction a SELECT ... FOR UPDATE returns what the plain driver returns -
// also when it matches nothing - and reaches the database exactly once.
func VerifC16LockingRead() {
	w := c18Setup(false)
	w.lockable = true
	at.LockConfig = rm.LockConfig{RetryInterval: 10 * time.Millisecond, RetryTimes: 2}
	twin := &aDB{table: w.d.table, cols: w.d.cols, pk: w.d.pk, nullable: w.d.nullable, auto: w.d.auto, failAt: -1, nextAuto: w.d.nextAuto}
	for _, r := range w.d.rows {
		twin.rows = append(twin.rows, r.clone())
	}
	args := []driver.NamedValue{{Ordinal: 1, Value: vrt.Int64("arg0")}}
	q := c03Queries[vrt.Choice("sfu.form", len(c03Queries))]
	plainRows, plainErr := (&aConn{twin}).QueryContext(context.Background(), q, args)
	if vrt.Choice("inLocalTx", 2) == 1 {
		tx, err := w.c.BeginTx(w.ctx, driver.TxOptions{})
		vrt.Assert(err == nil && tx != nil, "gtx/begin-ok")
	}
	var rows driver.Rows
	var err error
	panicked := false
	func() {
		defer func() {
			if recover() != nil {
				panicked = true
			}
		}()
		rows, err = w.c.QueryContext(w.ctx, q, args)
	}()
	vrt.Reach("gtx/locking-read")
	vrt.Assert(!panicked, "gtx/locking-read-no-panic")
	if panicked || w.d.bad != "" || twin.bad != "" {
		return
	}
	vrt.Assert((err != nil) == (plainErr != nil), "gtx/locking-read-fails-iff-the-plain-driver-fails")
	if err != nil || plainErr != nil {
		return
	}
	vrt.Assert(rows != nil, "gtx/locking-read-returns-rows")
	if rows == nil {
		return
	}
	a, b := make([]driver.Value, 3), make([]driver.Value, 3)
	same := true
	n := 0
	for {
		ea, eb := rows.Next(a), plainRows.Next(b)
		if ea != nil || eb != nil {
			same = same && ea != nil && eb != nil
			break
		}
		n++
		for k := range a {
			if a[k] != b[k] {
				same = false
			}
		}
	}
	if n == 0 {
		vrt.Reach("gtx/locking-read-matches-nothing")
	}
	vrt.Assert(same, "gtx/locking-read-returns-the-plain-drivers-rows")
	business := 0
	for _, j := range w.d.journal {
		if j == q {
			business++
		}
	}
	vrt.Assert(business == 1, "gtx/locking-read-sent-exactly-once")
}
