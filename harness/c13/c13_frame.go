package getty

// C13 — frame reader survives any fragmentation of the byte stream.
// Harness for the symbolic engine (and native replay); see DESIGN.md §4 C13.

import (
	"time"

	"seata.apache.org/seata-go/pkg/protocol/codec"
	"seata.apache.org/seata-go/pkg/protocol/message"
	"seata.apache.org/seata-go/pkg/zzverif/vrt"
)

// c13Read calls the real reader and reports an escaping panic.
func c13Read(data []byte) (pkg interface{}, used int, err error, panicked bool) {
	defer func() {
		if r := recover(); r != nil {
			panicked = true
		}
	}()
	pkg, used, err = rpcPkgHandler.Read(nil, data)
	return
}

type c13Out struct {
	msgs     []message.RpcMessage
	consumed int
	exit     bool // the reader returned an error: getty closes the session
	spin     bool // a package was returned without consuming anything
	over     bool // more consumed than buffered
	panicked bool
	early    bool // message delivered while the frame was still incomplete
}

// c13Drive is getty's inner receive loop (dubbo-getty v1.5.0
// session.handleTCPPackage): append what was received, then call Read until it
// errs, asks for more, or the buffer is empty.
func c13Drive(buf *[]byte, chunk []byte, out *c13Out) {
	*buf = append(*buf, chunk...)
	for iter := 0; len(*buf) > 0; iter++ {
		if iter > 6 {
			out.spin = true
			return
		}
		pkg, n, err, p := c13Read(*buf)
		if p {
			out.panicked = true
			return
		}
		if err != nil {
			out.exit = true
			return
		}
		if pkg == nil {
			return
		}
		out.msgs = append(out.msgs, pkg.(message.RpcMessage))
		if n <= 0 {
			out.spin = true
			return
		}
		if n > len(*buf) { // gxbytes.Buffer.Next(n) takes what is there
			out.over = true
			n = len(*buf)
		}
		*buf = (*buf)[n:]
		out.consumed += n
	}
}

// c13NullCodec stands for "some registered codec": the per-type body codecs
// are C12's subject; here only the framing around them is.
type c13NullCodec struct{}

func (c13NullCodec) Encode(in interface{}) []byte        { return nil }
func (c13NullCodec) Decode(in []byte) interface{}        { return len(in) }
func (c13NullCodec) GetMessageType() message.MessageType { return 0 }

// VerifC13Arbitrary: arbitrary bytes of every length up to the bound.
func VerifC13Arbitrary() {
	codec.Init()
	vrt.MaxAlloc(4)
	vrt.Redirect((*codec.CodecManager).GetCodec, func(c *codec.CodecManager, ct codec.CodecType, mt message.MessageType) codec.Codec {
		if vrt.Bool("codec-known") {
			return c13NullCodec{}
		}
		return nil
	})
	n := vrt.Choice("len", vrt.Param("maxarb", 24)+1)
	data := vrt.Bytes("data", n)
	if n > 8 {
		// stated bound: head map of at most 8 bytes (HeadLength 16..24); the
		// wrap-around values HeadLength < 16 are VerifC13ShortHead's subject
		hl := uint16(data[7])<<8 | uint16(data[8])
		vrt.Assume(hl >= 16 && hl <= 24)
	}
	pkg, used, err, panicked := c13Read(data)
	vrt.Assert(!panicked, "arb/no-panic")
	if panicked {
		return
	}
	if err == nil && pkg != nil {
		vrt.Reach("arb/package-returned")
		vrt.Assert(used > 0, "arb/returned-pkg=>consumed>0")
		vrt.Assert(used <= n, "arb/returned-pkg=>consumed<=len")
	}
	if n >= 16 {
		// reference reading of the fixed header: magic, total length (32 bit), head length (16 bit)
		magic := data[0] == 0xda && data[1] == 0xda
		total := uint32(data[3])<<24 | uint32(data[4])<<16 | uint32(data[5])<<8 | uint32(data[6])
		hl := uint32(data[7])<<8 | uint32(data[8])
		switch {
		case !magic:
			vrt.Assert(err != nil && pkg == nil, "arb/wrong-magic=>error")
		case hl < 16 || hl > total:
			vrt.Reach("arb/inconsistent-lengths")
			vrt.Assert(err != nil && pkg == nil, "arb/inconsistent-lengths=>error")
		case total > uint32(n):
			// a well-formed header of a frame that has not arrived completely - whatever its size
			vrt.Reach("arb/incomplete-frame")
			vrt.Assert(err == nil && pkg == nil, "arb/incomplete-frame=>wait-for-more")
		default:
			vrt.Reach("arb/complete-frame")
			if err == nil && pkg != nil {
				vrt.Assert(uint32(used) == total, "arb/complete-frame=>consumes-its-total-length")
			}
		}
	}
	if n >= 1 && n < 16 {
		isPrefix := data[0] == 0xda
		if n >= 2 {
			isPrefix = isPrefix && data[1] == 0xda
		}
		if isPrefix {
			vrt.Reach("arb/incomplete-header")
			vrt.Assert(err == nil, "arb/incomplete-header=>no-error")
			vrt.Assert(pkg == nil, "arb/incomplete-header=>no-package")
		}
	}
}

// VerifC13ShortHead: HeadLength below the fixed header size (uint16 wrap).
func VerifC13ShortHead() {
	codec.Init()
	vrt.MaxAlloc(4)
	n := 16 + vrt.Choice("extra", 5)
	data := vrt.Bytes("data", n)
	hl := vrt.Choice("headLength", 16)
	data[7] = byte(hl >> 8)
	data[8] = byte(hl)
	_, used, err, panicked := c13Read(data)
	vrt.Assert(!panicked, "shorthead/no-panic")
	if !panicked && err == nil {
		vrt.Assert(used >= 0, "shorthead/consumed>=0")
	}
}

var c13MaxStr = 2

func c13Str(name string) string {
	return vrt.String(name, vrt.Choice(name+".len", c13MaxStr+1))
}

func c13Msg(tag string, maxHeads int) message.RpcMessage {
	m := message.RpcMessage{
		ID:         vrt.Int32(tag + ".id"),
		Codec:      byte(codec.CodecTypeSeata),
		Compressor: vrt.Uint8(tag + ".compressor"),
	}
	switch vrt.Choice(tag+".kind", 3) {
	case 0:
		m.Type = message.GettyRequestTypeHeartbeatRequest
		m.Body = message.HeartBeatMessagePing
	case 1:
		m.Type = message.GettyRequestTypeRequestSync
		m.Body = message.GlobalBeginRequest{
			Timeout:         time.Duration(vrt.Uint32(tag+".timeoutms")) * time.Millisecond,
			TransactionName: c13Str(tag + ".name"),
		}
	default:
		m.Type = message.GettyRequestTypeResponse
		m.Body = message.GlobalBeginResponse{
			AbstractTransactionResponse: message.AbstractTransactionResponse{
				AbstractResultMessage: message.AbstractResultMessage{ResultCode: message.ResultCodeSuccess},
			},
			Xid: c13Str(tag + ".xid"),
		}
	}
	switch vrt.Choice(tag+".heads", maxHeads+1) {
	case 1:
		m.HeadMap = map[string]string{c13Str(tag + ".k1"): c13Str(tag + ".v1")}
	case 2:
		k1, k2 := c13Str(tag+".k1"), c13Str(tag+".k2")
		vrt.Assume(k1 != k2)
		m.HeadMap = map[string]string{k1: c13Str(tag + ".v1"), k2: c13Str(tag + ".v2")}
	}
	return m
}

func c13SameMsg(a, b message.RpcMessage) bool {
	if a.ID != b.ID || a.Type != b.Type || a.Codec != b.Codec || a.Compressor != b.Compressor {
		return false
	}
	if len(a.HeadMap) != len(b.HeadMap) {
		return false
	}
	for k, v := range a.HeadMap {
		w, ok := b.HeadMap[k]
		if !ok || w != v {
			return false
		}
	}
	switch x := a.Body.(type) {
	case message.HeartBeatMessage:
		y, ok := b.Body.(message.HeartBeatMessage)
		return ok && x == y
	case message.GlobalBeginRequest:
		y, ok := b.Body.(message.GlobalBeginRequest)
		return ok && x == y
	case message.GlobalBeginResponse:
		y, ok := b.Body.(message.GlobalBeginResponse)
		return ok && x.Xid == y.Xid && x.ResultCode == y.ResultCode
	}
	return false
}

// c13Stream: nmsg frames written by the real Write, fed in two chunks cut at
// every position.
func c13Stream(nmsg int) {
	codec.Init()
	vrt.MaxAlloc(4)
	c13MaxStr = vrt.Param("maxstr", 2)
	maxHeads := vrt.Param("maxheads", 2)
	var msgs []message.RpcMessage
	var stream []byte
	var ends []int
	for i := 0; i < nmsg; i++ {
		m := c13Msg([]string{"m0", "m1", "m2"}[i], maxHeads)
		if i == 0 {
			maxHeads = vrt.Param("maxheads-rest", maxHeads)
		}
		b, err := rpcPkgHandler.Write(nil, m)
		vrt.Assert(err == nil, "stream/write-ok")
		msgs = append(msgs, m)
		stream = append(stream, b...)
		ends = append(ends, len(stream))
	}
	cut := vrt.Choice("cut", len(stream)+1)
	var buf []byte
	out := &c13Out{}
	if cut > 0 {
		c13Drive(&buf, stream[:cut], out)
		// after the first chunk: exactly the complete frames have been delivered
		want := 0
		for _, e := range ends {
			if e <= cut {
				want++
			}
		}
		vrt.Assert(!out.panicked, "stream/no-panic")
		vrt.Assert(!out.exit, "stream/incomplete-frame-is-not-an-error")
		vrt.Assert(!out.spin, "stream/no-spin")
		vrt.Assert(len(out.msgs) <= want, "stream/nothing-delivered-early")
		vrt.Assert(len(out.msgs) == want, "stream/complete-frames-delivered")
		if want > 0 {
			vrt.Assert(out.consumed == ends[want-1], "stream/consumed-lengths")
		} else {
			vrt.Assert(out.consumed == 0, "stream/need-more-consumes-nothing")
		}
	}
	if cut < len(stream) && !out.exit && !out.spin && !out.panicked {
		c13Drive(&buf, stream[cut:], out)
	}
	vrt.Reach("stream/end")
	vrt.Assert(!out.panicked, "stream/no-panic")
	vrt.Assert(!out.exit, "stream/no-error")
	vrt.Assert(!out.spin, "stream/no-spin")
	vrt.Assert(!out.over, "stream/no-over-consumption")
	vrt.Assert(len(out.msgs) == nmsg, "stream/all-delivered")
	vrt.Assert(out.consumed == len(stream), "stream/consumed-sum")
	for i := 0; i < nmsg && i < len(out.msgs); i++ {
		vrt.Assert(c13SameMsg(msgs[i], out.msgs[i]), "stream/message-equal")
	}
}

func VerifC13Stream1() { c13Stream(1) }
func VerifC13Stream2() { c13Stream(2) }
func VerifC13Stream3() { c13Stream(3) }
