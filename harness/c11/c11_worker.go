package sql

// C11 — phase-two commit deletes exactly the committed branch's undo log,
// eventually. Real ATSourceManager.BranchCommit, AsyncWorker.BranchCommit /
// run / doBranchCommit / dealWithGroupedContexts, real fanout.Fanout, real
// BaseUndoLogManager.BatchDeleteUndoLog, through database/sql onto a
// driver-level undo_log stub. The worker goroutines and the ticker run under
// the engine's cooperative scheduler with a virtual clock.

import (
	"context"
	"database/sql"
	"database/sql/driver"
	"errors"
	"strconv"
	"strings"
	"sync"
	"time"

	"github.com/prometheus/client_golang/prometheus"

	"seata.apache.org/seata-go/pkg/datasource/sql/datasource"
	"seata.apache.org/seata-go/pkg/datasource/sql/types"
	"seata.apache.org/seata-go/pkg/datasource/sql/undo"
	undomysql "seata.apache.org/seata-go/pkg/datasource/sql/undo/mysql"
	"seata.apache.org/seata-go/pkg/protocol/branch"
	"seata.apache.org/seata-go/pkg/rm"
	"seata.apache.org/seata-go/pkg/util/fanout"
	"seata.apache.org/seata-go/pkg/zzverif/vrt"
)

type c11Counter struct{ prometheus.Counter }

func (c11Counter) Inc()        {}
func (c11Counter) Add(float64) {}

type c11Gauge struct{ prometheus.Gauge }

func (c11Gauge) Set(float64) {}
func (c11Gauge) Inc()        {}
func (c11Gauge) Dec()        {}
func (c11Gauge) Add(float64) {}
func (c11Gauge) Sub(float64) {}

type c11Row struct {
	xid     string
	branch  int64
	present bool
}

// c11DB is one database (one resource) with its undo_log table.
type c11DB struct {
	mu        sync.Mutex
	name      string
	rows      []*c11Row
	connFails int // the first connFails connection attempts fail
	conns     int
	delFails  int  // the first delFails DELETE executions fail
	badConn   bool // ... with driver.ErrBadConn (the connection died) rather than a statement error
	dels      int
	openConns int
	badDelete bool // a DELETE arrived that the stub cannot interpret
	// a database stall: while hold is set every DELETE waits for the gate to open
	hold bool
	gate chan struct{}
}

type c11Connector struct{ db *c11DB }

func (c c11Connector) Connect(context.Context) (driver.Conn, error) {
	c.db.mu.Lock()
	defer c.db.mu.Unlock()
	c.db.conns++
	if c.db.conns <= c.db.connFails {
		return nil, errors.New("injected: cannot connect")
	}
	c.db.openConns++
	return &c11Conn{db: c.db}, nil
}
func (c c11Connector) Driver() driver.Driver { return nil }

type c11Conn struct {
	driver.Conn
	db *c11DB
}

func (c *c11Conn) Close() error {
	c.db.mu.Lock()
	c.db.openConns--
	c.db.mu.Unlock()
	return nil
}
func (c *c11Conn) Prepare(q string) (driver.Stmt, error) { return &c11Stmt{db: c.db, q: q}, nil }

type c11Stmt struct {
	db *c11DB
	q  string
}

func (s *c11Stmt) Close() error  { return nil }
func (s *c11Stmt) NumInput() int { return -1 }
func (s *c11Stmt) Query([]driver.Value) (driver.Rows, error) {
	return nil, errors.New("c11: unexpected query")
}

type c11Result struct{ n int64 }

func (r c11Result) LastInsertId() (int64, error) { return 0, nil }
func (r c11Result) RowsAffected() (int64, error) { return r.n, nil }

func (s *c11Stmt) Exec(args []driver.Value) (driver.Result, error) {
	if s.db.hold {
		<-s.db.gate
	}
	s.db.mu.Lock()
	defer s.db.mu.Unlock()
	q := strings.ToUpper(s.q)
	if !strings.Contains(q, "DELETE FROM") || !strings.Contains(q, "BRANCH_ID IN") || len(args) < 2 || len(args)%2 != 0 {
		s.db.badDelete = true
		return nil, errors.New("c11: unexpected statement " + s.q)
	}
	if len(args) > 2 {
		// branch_id IN (b1..bn) AND xid IN (x1..xn): every row whose branch id is in the
		// first list and whose xid is in the second
		s.db.dels++
		n := len(args) / 2
		cnt := int64(0)
		for _, r := range s.db.rows {
			inB, inX := false, false
			for k := 0; k < n; k++ {
				if bs, ok := args[k].(string); ok {
					if b, err := strconv.ParseInt(bs, 10, 64); err == nil && b == r.branch {
						inB = true
					}
				}
				if xs, ok := args[n+k].(string); ok && xs == r.xid {
					inX = true
				}
			}
			if r.present && inB && inX {
				r.present = false
				cnt++
			}
		}
		return c11Result{cnt}, nil
	}
	s.db.dels++
	if s.db.dels <= s.db.delFails {
		if s.db.badConn {
			return nil, driver.ErrBadConn
		}
		return nil, errors.New("injected: delete failed")
	}
	// branch_id IN (<list>) AND xid IN (<list>): MySQL compares the text with the column
	bs, ok1 := args[0].(string)
	xs, ok2 := args[1].(string)
	if !ok1 || !ok2 {
		s.db.badDelete = true
		return nil, errors.New("c11: unexpected argument types")
	}
	b, err := strconv.ParseInt(bs, 10, 64)
	if err != nil {
		s.db.badDelete = true
		return nil, err
	}
	n := int64(0)
	for _, r := range s.db.rows {
		if r.present && r.branch == b && r.xid == xs {
			r.present = false
			n++
		}
	}
	return c11Result{n}, nil
}

type c11Req struct {
	res    string
	xid    string
	branch int64
}

func VerifC11Worker() {
	undo.RegisterUndoLogManager(undomysql.NewUndoLogManager())
	nreq := 1 + vrt.Choice("requests", vrt.Param("maxrequests", 2))
	interval := 5 * time.Millisecond

	dbs := map[string]*c11DB{"resA": {name: "resA"}, "resB": {name: "resB"}}
	dbs["resA"].connFails = vrt.Choice("resA.connFails", 2)
	dbs["resA"].delFails = vrt.Choice("resA.deleteFails", 2)
	dbs["resA"].badConn = dbs["resA"].delFails > 0 && vrt.Bool("resA.deleteFailsWithBadConn")
	mgr := &ATSourceManager{resourceCache: sync.Map{}, basic: datasource.NewBasicSourceManager(), rmRemoting: rm.GetRMRemotingInstance()}
	resources := map[string]*DBResource{}
	for name, d := range dbs {
		r := &DBResource{resourceID: name, dbType: types.DBTypeMySQL, db: sql.OpenDB(c11Connector{d}), dbName: name}
		resources[name] = r
	}
	mgr.resourceCache.Store("resA", resources["resA"])
	lateB := vrt.Choice("resB.registered-late", 2) == 1 // resource temporarily unknown to the manager
	if !lateB {
		mgr.resourceCache.Store("resB", resources["resB"])
	}
	// a roomy commit queue, or one that is full after a single entry (re-queueing under pressure)
	qcap := []int{8, 1}[vrt.Choice("queue.capacity", vrt.Param("queues", 2))]
	aw := &AsyncWorker{
		conf:                       AsyncWorkerConfig{BufferLimit: 12, BufferCleanInterval: interval, ReceiveChanSize: qcap, CommitWorkerCount: 1, CommitWorkerBufferSize: 4},
		commitQueue:                make(chan phaseTwoContext, qcap),
		resourceMgr:                mgr,
		commitWorker:               fanout.New("c11", fanout.WithWorker(1), fanout.WithBuffer(4)),
		branchCommitTotal:          c11Counter{},
		doBranchCommitFailureTotal: c11Counter{},
		receiveChanLength:          c11Gauge{},
		rePutBackToQueue:           c11Counter{},
	}
	mgr.worker = aw
	go aw.run()

	// a foreign undo-log row in every database that no request names
	foreignXid, foreignBranch := vrt.String("foreign.xid", 2), int64(1+vrt.Choice("foreign.branch", 2))
	for _, d := range dbs {
		d.rows = append(d.rows, &c11Row{xid: foreignXid, branch: foreignBranch, present: true})
	}
	names := []string{"r0", "r1", "r2"}
	var reqs []c11Req
	for k := 0; k < nreq; k++ {
		rq := c11Req{res: []string{"resA", "resB"}[vrt.Choice(names[k]+".resource", 2)], xid: vrt.String(names[k]+".xid", 2), branch: int64(1 + vrt.Choice(names[k]+".branch", 2))}
		vrt.Assume(rq.xid != foreignXid || rq.branch != foreignBranch)
		reqs = append(reqs, rq)
		dbs[rq.res].rows = append(dbs[rq.res].rows, &c11Row{xid: rq.xid, branch: rq.branch, present: true})
	}
	for _, rq := range reqs {
		st, err := mgr.BranchCommit(context.Background(), rm.BranchResource{BranchType: branch.BranchTypeAT, Xid: rq.xid, BranchId: rq.branch, ResourceId: rq.res})
		vrt.Assert(err == nil && st == branch.BranchStatusPhasetwoCommitted, "c11/accepted-request-answered-committed")
	}
	// let the worker run: several clean intervals, the faults are transient
	time.Sleep(6 * interval)
	if lateB {
		mgr.resourceCache.Store("resB", resources["resB"])
		time.Sleep(4 * interval)
	}
	vrt.Reach("c11/quiescent")
	for _, d := range dbs {
		d.mu.Lock()
		vrt.Assert(!d.badDelete, "c11/delete-statement-shape")
		vrt.Assert(d.rows[0].present, "c11/foreign-undo-log-never-deleted")
		d.mu.Unlock()
	}
	for _, rq := range reqs {
		d := dbs[rq.res]
		d.mu.Lock()
		for _, r := range d.rows[1:] {
			if r.xid == rq.xid && r.branch == rq.branch {
				vrt.Assert(!r.present, "c11/committed-branch-undo-log-deleted")
			}
		}
		d.mu.Unlock()
	}
	vrt.Assert(len(aw.commitQueue) == 0, "c11/queue-drained")
}

// VerifC11Requeue: the re-queue paths under queue pressure, deterministically:
// the commit queue (capacity 1) is already full when a group whose resource is
// unknown / whose connection cannot be acquired / whose delete fails has to be
// put back; a consumer then drains the queue. Every branch that was answered
// 'committed' must come out again (or have its undo log deleted).
func VerifC11Requeue() {
	undo.RegisterUndoLogManager(undomysql.NewUndoLogManager())
	d := &c11DB{name: "resA"}
	cause := vrt.Choice("requeue.cause", 3) // 0 unknown resource, 1 no connection, 2 delete fails
	mgr := &ATSourceManager{resourceCache: sync.Map{}, basic: datasource.NewBasicSourceManager(), rmRemoting: rm.GetRMRemotingInstance()}
	if cause != 0 {
		mgr.resourceCache.Store("resA", &DBResource{resourceID: "resA", dbType: types.DBTypeMySQL, db: sql.OpenDB(c11Connector{d}), dbName: "resA"})
	}
	if cause == 1 {
		d.connFails = 1
	}
	if cause == 2 {
		d.delFails = 2
	}
	aw := &AsyncWorker{
		conf:                       AsyncWorkerConfig{BufferLimit: 12, BufferCleanInterval: 5 * time.Millisecond, ReceiveChanSize: 1, CommitWorkerCount: 1, CommitWorkerBufferSize: 4},
		commitQueue:                make(chan phaseTwoContext, 1),
		resourceMgr:                mgr,
		branchCommitTotal:          c11Counter{},
		doBranchCommitFailureTotal: c11Counter{},
		receiveChanLength:          c11Gauge{},
		rePutBackToQueue:           c11Counter{},
	}
	n := 1 + vrt.Choice("group.size", 2)
	var group []phaseTwoContext
	for k := 0; k < n; k++ {
		x := vrt.String([]string{"g0.xid", "g1.xid"}[k], 2)
		group = append(group, phaseTwoContext{Xid: x, BranchID: int64(k + 1), ResourceID: "resA"})
		d.rows = append(d.rows, &c11Row{xid: x, branch: int64(k + 1), present: true})
	}
	aw.commitQueue <- phaseTwoContext{Xid: "other", BranchID: 99, ResourceID: "resA"} // the queue is full
	done := false
	go func() {
		aw.dealWithGroupedContexts("resA", group)
		done = true
	}()
	var out []phaseTwoContext
	for round := 0; round < 8 && !(done && len(aw.commitQueue) == 0); round++ {
		vrt.Settle()
		select {
		case c := <-aw.commitQueue:
			out = append(out, c)
		default:
		}
		time.Sleep(6 * time.Millisecond)
	}
	vrt.Settle()
	vrt.Reach("c11/requeue-drained")
	vrt.Assert(done, "c11/requeue-terminates")
	for k, g := range group {
		seen := false
		for _, c := range out {
			if c.Xid == g.Xid && c.BranchID == g.BranchID {
				seen = true
			}
		}
		deleted := !d.rows[k].present
		vrt.Assert(seen || deleted, "c11/requeued-branch-is-not-lost")
	}
}

// VerifC11Pressure: the database stalls while branch commits keep arriving: one
// commit worker, room for one waiting batch, every context flushed on arrival. Each
// request was answered "committed", so once the stall is over every one of their
// undo-log rows goes, however many batches had to wait.
func VerifC11Pressure() {
	undo.RegisterUndoLogManager(undomysql.NewUndoLogManager())
	interval := 5 * time.Millisecond
	d := &c11DB{name: "resA", hold: true, gate: make(chan struct{})}
	mgr := &ATSourceManager{resourceCache: sync.Map{}, basic: datasource.NewBasicSourceManager(), rmRemoting: rm.GetRMRemotingInstance()}
	mgr.resourceCache.Store("resA", &DBResource{resourceID: "resA", dbType: types.DBTypeMySQL, db: sql.OpenDB(c11Connector{d}), dbName: "resA"})
	aw := &AsyncWorker{
		conf:                       AsyncWorkerConfig{BufferLimit: 1, BufferCleanInterval: interval, ReceiveChanSize: 8, CommitWorkerCount: 1, CommitWorkerBufferSize: 1},
		commitQueue:                make(chan phaseTwoContext, 8),
		resourceMgr:                mgr,
		commitWorker:               fanout.New("c11p", fanout.WithWorker(1), fanout.WithBuffer(1)),
		branchCommitTotal:          c11Counter{},
		doBranchCommitFailureTotal: c11Counter{},
		receiveChanLength:          c11Gauge{},
		rePutBackToQueue:           c11Counter{},
	}
	mgr.worker = aw
	go aw.run()
	n := 2 + vrt.Choice("requests", vrt.Param("pressure", 4))
	for k := 0; k < n; k++ {
		d.rows = append(d.rows, &c11Row{xid: "x", branch: int64(k + 1), present: true})
	}
	for k := 0; k < n; k++ {
		st, err := mgr.BranchCommit(context.Background(), rm.BranchResource{BranchType: branch.BranchTypeAT, Xid: "x", BranchId: int64(k + 1), ResourceId: "resA"})
		vrt.Assert(err == nil && st == branch.BranchStatusPhasetwoCommitted, "c11/pressure/accepted-request-answered-committed")
		time.Sleep(interval / 2)
	}
	time.Sleep(2 * interval)
	// the stall is over
	d.hold = false
	close(d.gate)
	time.Sleep(time.Duration(4+2*n) * interval)
	vrt.Reach("c11/pressure/quiescent")
	d.mu.Lock()
	vrt.Assert(!d.badDelete, "c11/pressure/delete-statement-shape")
	for _, r := range d.rows {
		vrt.Assert(!r.present, "c11/pressure/committed-branch-undo-log-deleted")
	}
	d.mu.Unlock()
}
