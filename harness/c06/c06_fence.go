package fence

// C06 — TCC fence: idempotence, anti-suspension, empty rollback.
// Real WithFence/DoFence, tccFenceWrapperHandler, TccFenceStoreDatabaseMapper
// on a driver-level stub of the tcc_fence_log table (through database/sql:
// the symsql model under the engine, the real package in native replay).
// One inductive step from an arbitrary state satisfying the invariant, plus
// short sequences from the empty table. See DESIGN.md §4 C06.

import (
	"context"
	"database/sql"
	"database/sql/driver"
	"errors"
	"io"
	"strings"
	"time"

	"github.com/go-sql-driver/mysql"

	"seata.apache.org/seata-go/pkg/rm/tcc/fence/enum"
	"seata.apache.org/seata-go/pkg/tm"
	"seata.apache.org/seata-go/pkg/zzverif/vrt"
)

// fence table state for the branch under test plus one foreign branch, and
// the business effects applied so far (they live in the same database, so a
// transaction covers both).
type c06State struct {
	present bool
	status  byte
	try     uint8
	confirm uint8
	cancel  uint8
	// a row of another branch sharing the table
	otherStatus byte
}

type c06DB struct {
	xid         string
	branch      int64
	otherXid    string
	otherBranch int64

	committed c06State
	work      c06State
	inTx      bool
	openTx    int
	bizFails  bool // the business callback returns an error
	bizRan    bool
	// a try of the same branch, delivered concurrently, inserts its TRIED record and
	// commits right after this delivery's locking read found no row
	raceTry     bool
	racePending bool
	raced       bool

	stmts   int // statements issued so far (Prepare, Exec, Query each count)
	failAt  int // the failAt-th statement fails; -1: none
	faulted bool
}

func (d *c06DB) step() error {
	k := d.stmts
	d.stmts++
	if k == d.failAt {
		d.faulted = true
		return errors.New("injected database failure")
	}
	return nil
}

type c06Connector struct{ db *c06DB }

func (c c06Connector) Connect(context.Context) (driver.Conn, error) { return &c06Conn{db: c.db}, nil }
func (c c06Connector) Driver() driver.Driver                        { return nil }

type c06Conn struct{ db *c06DB }

func (c *c06Conn) Prepare(q string) (driver.Stmt, error) {
	if err := c.db.step(); err != nil {
		return nil, err
	}
	return &c06Stmt{db: c.db, q: strings.ToLower(strings.TrimSpace(q))}, nil
}
func (c *c06Conn) Close() error { return nil }
func (c *c06Conn) Begin() (driver.Tx, error) {
	c.db.inTx = true
	c.db.openTx++
	c.db.work = c.db.committed
	return &c06Tx{db: c.db}, nil
}

type c06Tx struct{ db *c06DB }

func (t *c06Tx) Commit() error {
	t.db.committed = t.db.work
	t.db.inTx = false
	t.db.openTx--
	return nil
}
func (t *c06Tx) Rollback() error {
	t.db.work = t.db.committed
	t.db.inTx = false
	t.db.openTx--
	return nil
}

type c06Stmt struct {
	db *c06DB
	q  string
}

func (s *c06Stmt) Close() error  { return nil }
func (s *c06Stmt) NumInput() int { return -1 }

func c06Str(v driver.Value) string {
	switch x := v.(type) {
	case string:
		return x
	case []byte:
		return string(x)
	}
	return "?"
}

type c06Result struct{ n int64 }

func (r c06Result) LastInsertId() (int64, error) { return 0, nil }
func (r c06Result) RowsAffected() (int64, error) { return r.n, nil }

func (s *c06Stmt) Exec(args []driver.Value) (driver.Result, error) {
	if err := s.db.step(); err != nil {
		return nil, err
	}
	if s.db.racePending {
		// the racing try has committed: its record and its effect are there for everybody
		s.db.racePending, s.db.raced = false, true
		for _, t := range []*c06State{&s.db.committed, &s.db.work} {
			t.present, t.status, t.try = true, byte(enum.StatusTried), t.try+1
		}
	}
	st := &s.db.work
	switch {
	case strings.HasPrefix(s.q, "insert into"):
		xid, branch := c06Str(args[0]), args[1].(int64)
		status := byte(args[3].(int64))
		if xid == s.db.xid && branch == s.db.branch {
			if st.present {
				return nil, &mysql.MySQLError{Number: 1062, Message: "Duplicate entry"}
			}
			st.present, st.status = true, status
			return c06Result{1}, nil
		}
		if xid == s.db.otherXid && branch == s.db.otherBranch {
			return nil, &mysql.MySQLError{Number: 1062, Message: "Duplicate entry"}
		}
		return c06Result{1}, nil // some third branch: not tracked
	case strings.HasPrefix(s.q, "update"):
		newStatus := byte(args[0].(int64))
		xid, branch := c06Str(args[2]), args[3].(int64)
		oldStatus := byte(args[4].(int64))
		if xid == s.db.xid && branch == s.db.branch {
			if st.present && st.status == oldStatus {
				st.status = newStatus
				return c06Result{1}, nil
			}
			return c06Result{0}, nil
		}
		if xid == s.db.otherXid && branch == s.db.otherBranch {
			if st.otherStatus == oldStatus {
				st.otherStatus = newStatus
				return c06Result{1}, nil
			}
		}
		return c06Result{0}, nil
	}
	return nil, errors.New("c06 stub: unexpected statement: " + s.q)
}

var c06Epoch time.Time

type c06Rows struct {
	row  []driver.Value
	done bool
}

func (r *c06Rows) Columns() []string {
	return []string{"xid", "branch_id", "action_name", "status", "gmt_create", "gmt_modified"}
}
func (r *c06Rows) Close() error { return nil }
func (r *c06Rows) Next(dest []driver.Value) error {
	if r.done || r.row == nil {
		return io.EOF
	}
	r.done = true
	copy(dest, r.row)
	return nil
}

func (s *c06Stmt) Query(args []driver.Value) (driver.Rows, error) {
	if err := s.db.step(); err != nil {
		return nil, err
	}
	if !strings.HasPrefix(s.q, "select") {
		return nil, errors.New("c06 stub: unexpected query: " + s.q)
	}
	xid, branch := c06Str(args[0]), args[1].(int64)
	st := &s.db.work
	if xid == s.db.xid && branch == s.db.branch && st.present {
		return &c06Rows{row: []driver.Value{xid, branch, "action", int64(st.status), c06Epoch, c06Epoch}}, nil
	}
	if xid == s.db.otherXid && branch == s.db.otherBranch {
		return &c06Rows{row: []driver.Value{xid, branch, "other", int64(st.otherStatus), c06Epoch, c06Epoch}}, nil
	}
	if xid == s.db.xid && branch == s.db.branch && s.db.raceTry && !s.db.raced {
		s.db.racePending = true
	}
	return &c06Rows{}, nil
}

func c06Inv(s c06State) bool {
	if !s.present {
		return s.try == 0 && s.confirm == 0 && s.cancel == 0
	}
	switch s.status {
	case byte(enum.StatusTried):
		return s.try == 1 && s.confirm == 0 && s.cancel == 0
	case byte(enum.StatusCommitted):
		return s.try == 1 && s.confirm == 1 && s.cancel == 0
	case byte(enum.StatusRollbacked):
		return s.try == 1 && s.confirm == 0 && s.cancel == 1
	case byte(enum.StatusSuspended):
		return s.try == 0 && s.confirm == 0 && s.cancel == 0
	}
	return false
}

func c06Same(a, b c06State) bool {
	return a.present == b.present && (!a.present || a.status == b.status) && a.try == b.try && a.confirm == b.confirm && a.cancel == b.cancel && a.otherStatus == b.otherStatus
}

// c06Deliver runs one delivery of phase for the branch under test, the way an
// application uses the fence: begin a local transaction, WithFence(business),
// commit if it returned nil, roll back otherwise.
func c06Deliver(db *c06DB, sqlDB *sql.DB, phase enum.FencePhase) (err error, panicked bool) {
	ctx := tm.InitSeataContext(context.Background())
	tm.SetBusinessActionContext(ctx, &tm.BusinessActionContext{Xid: db.xid, BranchId: db.branch, ActionName: "action"})
	tm.SetFencePhase(ctx, phase)
	tx, berr := sqlDB.BeginTx(ctx, &sql.TxOptions{})
	if berr != nil {
		return berr, false
	}
	func() {
		defer func() {
			if r := recover(); r != nil {
				panicked = true
			}
		}()
		err = WithFence(ctx, tx, func() error {
			switch phase {
			case enum.FencePhasePrepare:
				db.work.try++
			case enum.FencePhaseCommit:
				db.work.confirm++
			case enum.FencePhaseRollback:
				db.work.cancel++
			}
			if db.bizFails {
				// the business step failed after it had started to write (same transaction)
				db.bizRan = true
				return errors.New("business failed")
			}
			return nil
		})
	}()
	if err == nil && !panicked {
		tx.Commit()
	} else {
		tx.Rollback()
	}
	return
}

var c06PhaseNames = []string{"", "prepare", "commit", "rollback"}

func c06NewDB() (*c06DB, *sql.DB) {
	db := &c06DB{xid: vrt.String("xid", 2), branch: vrt.Int64("branch"), otherXid: vrt.String("other.xid", 2), otherBranch: vrt.Int64("other.branch"), failAt: -1}
	vrt.Assume(db.xid != db.otherXid || db.branch != db.otherBranch)
	db.committed.otherStatus = 1 + vrt.Uint8("other.status")%4
	return db, sql.OpenDB(c06Connector{db})
}

// VerifC06Step: one delivery from any state satisfying the invariant.
func VerifC06Step() {
	db, sqlDB := c06NewDB()
	pre := &db.committed
	pre.present = vrt.Bool("pre.present")
	if pre.present {
		pre.status = 1 + byte(vrt.Choice("pre.status", 4))
	}
	pre.try, pre.confirm, pre.cancel = vrt.Uint8("pre.try"), vrt.Uint8("pre.confirm"), vrt.Uint8("pre.cancel")
	vrt.Assume(c06Inv(*pre))
	before := *pre
	phase := enum.FencePhase(1 + vrt.Choice("phase", 3))
	db.failAt = vrt.Choice("failAt", 7) - 1 // -1: no fault; 0..5: that statement fails
	// deliveries for which the fence has nothing to do (duplicate commit or
	// rollback, rollback before try)
	noop := (phase == enum.FencePhaseCommit && before.present && before.status == byte(enum.StatusCommitted)) ||
		(phase == enum.FencePhaseRollback && (!before.present || before.status == byte(enum.StatusRollbacked) || before.status == byte(enum.StatusSuspended)))
	// the business step itself may fail once the fence has admitted the delivery
	db.bizFails = !noop && db.failAt < 0 && vrt.Bool("business.fails")
	// a rollback that finds no record may be racing with the try of its branch
	db.raceTry = phase == enum.FencePhaseRollback && !before.present && db.failAt < 0 && vrt.Bool("try.commits.between.read.and.insert")

	err, panicked := c06Deliver(db, sqlDB, phase)
	post := db.committed
	tag := c06PhaseNames[phase] + "/"
	if before.present {
		tag += []string{"", "tried", "committed", "rollbacked", "suspended"}[before.status]
	} else {
		tag += "none"
	}
	vrt.Reach("step/" + tag)
	vrt.Assert(!panicked, "step/no-panic/"+tag)
	vrt.Assert(db.openTx == 0, "step/no-open-transaction/"+tag)
	vrt.Assert(post.otherStatus == before.otherStatus, "step/other-branch-untouched/"+tag)
	if db.faulted {
		vrt.Reach("step/fault")
		vrt.Assert(err != nil, "step/fault=>error/"+tag)
		vrt.Assert(c06Same(post, before), "step/fault=>unchanged/"+tag)
		return
	}
	if db.raced {
		// whoever loses the race is refused or applied after the winner: never both effects
		// of cancel and a later confirm, never a cancel beside a TRIED record
		vrt.Reach("step/race")
		vrt.Assert(c06Inv(post), "step/race/invariant/"+tag)
		if err == nil {
			vrt.Assert(post.present && post.status != byte(enum.StatusTried), "step/race/accepted-rollback-is-recorded/"+tag)
		}
		return
	}
	if db.bizRan {
		// fence record and business effect go together: the caller must be told, so that
		// it rolls both back
		vrt.Reach("step/business-failed")
		vrt.Assert(err != nil, "step/business-failure=>error/"+tag)
		vrt.Assert(c06Same(post, before), "step/business-failure=>unchanged/"+tag)
		return
	}
	// ... there the business callback must not be applied
	if noop {
		vrt.Reach("step/noop-delivery")
		if err != nil {
			vrt.Observe("noop.err", err.Error())
		}
		vrt.Assert(err == nil, "step/noop-delivery-answers-ok/"+tag)
		if !before.present {
			vrt.Assert(post.present && post.status == byte(enum.StatusSuspended), "step/rollback-before-try-records-suspension/"+tag)
		} else {
			vrt.Assert(post.present && post.status == before.status, "step/noop-delivery-keeps-record/"+tag)
		}
		vrt.Assert(post.try == before.try && post.confirm == before.confirm && post.cancel == before.cancel, "step/noop-delivery-applies-no-business-effect/"+tag)
		return
	}
	vrt.Assert(c06Inv(post), "step/invariant/"+tag)
	vrt.Assert(post.try <= 1 && post.confirm <= 1 && post.cancel <= 1, "step/at-most-once/"+tag)
	vrt.Assert(!(post.confirm > 0 && post.cancel > 0), "step/confirm-xor-cancel/"+tag)
	if err != nil {
		vrt.Assert(c06Same(post, before), "step/error=>unchanged/"+tag)
	}
	switch phase {
	case enum.FencePhasePrepare:
		if before.present {
			vrt.Assert(err != nil, "step/try-refused-when-row-exists/"+tag)
		} else {
			vrt.Assert(err == nil && post.present && post.status == byte(enum.StatusTried) && post.try == 1, "step/try-recorded/"+tag)
		}
	case enum.FencePhaseCommit:
		if before.present && before.status == byte(enum.StatusTried) {
			vrt.Assert(err == nil && post.status == byte(enum.StatusCommitted) && post.confirm == 1, "step/commit-applied/"+tag)
		} else {
			vrt.Assert(err != nil, "step/commit-refused/"+tag)
		}
	case enum.FencePhaseRollback:
		if before.status == byte(enum.StatusTried) {
			vrt.Assert(err == nil && post.status == byte(enum.StatusRollbacked) && post.cancel == 1, "step/rollback-applied/"+tag)
		} else {
			vrt.Assert(err != nil, "step/rollback-after-commit-refused/"+tag)
		}
	}
}

// VerifC06Seq: every delivery sequence up to the bound from the empty table
// (shows the invariant is not vacuous and every invariant state is reached).
func VerifC06Seq() {
	db, sqlDB := c06NewDB()
	n := 1 + vrt.Choice("length", vrt.Param("maxlen", 3))
	sawNoop := false
	for k := 0; k < n; k++ {
		phase := enum.FencePhase(1 + vrt.Choice("phase", 3))
		b := db.committed
		if (phase == enum.FencePhaseCommit && b.present && b.status == byte(enum.StatusCommitted)) ||
			(phase == enum.FencePhaseRollback && (!b.present || b.status == byte(enum.StatusRollbacked) || b.status == byte(enum.StatusSuspended))) {
			sawNoop = true
		}
		_, panicked := c06Deliver(db, sqlDB, phase)
		s := db.committed
		vrt.Assert(!panicked, "seq/no-panic")
		if s.present {
			vrt.Reach("seq/state-" + []string{"", "tried", "committed", "rollbacked", "suspended"}[s.status])
		}
		if sawNoop {
			// a duplicate / empty-rollback delivery happened: see step/noop-delivery-applies-no-business-effect
			vrt.Assert(s.try <= 1 && s.confirm <= 1 && s.cancel <= 1 && !(s.confirm > 0 && s.cancel > 0) && c06Inv(s), "seq/effects-after-noop-delivery")
			continue
		}
		vrt.Assert(s.try <= 1 && s.confirm <= 1 && s.cancel <= 1, "seq/at-most-once")
		vrt.Assert(!(s.confirm > 0 && s.cancel > 0), "seq/confirm-xor-cancel")
		vrt.Assert(c06Inv(s), "seq/invariant")
	}
}

type c06BizTx struct {
	fail      bool
	committed bool
	rolled    bool
}

func (t *c06BizTx) Commit() error {
	if t.fail {
		return errors.New("business commit failed")
	}
	t.committed = true
	return nil
}
func (t *c06BizTx) Rollback() error { t.rolled = true; return nil }

// VerifC06Tx: the transaction pair of the fence driver (FenceTx): the fence record of
// an admitted try becomes durable exactly when the business transaction's commit
// succeeded; a failed business commit is reported and leaves no fence record behind.
func VerifC06Tx() {
	db, sqlDB := c06NewDB()
	ctx := tm.InitSeataContext(context.Background())
	tm.SetBusinessActionContext(ctx, &tm.BusinessActionContext{Xid: db.xid, BranchId: db.branch, ActionName: "action"})
	tm.SetFencePhase(ctx, enum.FencePhasePrepare)
	fenceTx, berr := sqlDB.BeginTx(ctx, &sql.TxOptions{})
	vrt.Assert(berr == nil, "tx/fence-begin-ok")
	if berr != nil {
		return
	}
	werr := WithFence(ctx, fenceTx, func() error { db.work.try++; return nil })
	vrt.Assert(werr == nil, "tx/try-admitted")
	if werr != nil {
		return
	}
	biz := &c06BizTx{fail: vrt.Bool("business.commit.fails")}
	end := vrt.Choice("end", 2) // 0 commit, 1 rollback
	ftx := &FenceTx{Ctx: ctx, TargetTx: biz, TargetFenceTx: fenceTx}
	var err error
	if end == 0 {
		err = ftx.Commit()
	} else {
		err = ftx.Rollback()
	}
	vrt.Reach("tx/end")
	if end == 1 {
		vrt.Assert(biz.rolled && !db.committed.present && db.committed.try == 0, "tx/rollback-ends-both-without-a-record")
		return
	}
	if biz.fail {
		vrt.Reach("tx/business-commit-failed")
		vrt.Assert(err != nil, "tx/business-commit-failure-is-reported")
		vrt.Assert(!db.committed.present && db.committed.try == 0, "tx/no-fence-record-without-the-business-commit")
		return
	}
	vrt.Assert(err == nil && biz.committed, "tx/commit-ok")
	vrt.Assert(db.committed.present && db.committed.status == byte(enum.StatusTried) && db.committed.try == 1, "tx/fence-record-durable-with-the-business-commit")
}
