package tm

// C04 — each global transaction gets exactly one truthful decision from its
// initiator. Real WithGlobalTx / begin / commitOrRollback /
// GlobalTransactionManager.{Begin,Commit,Rollback} / backoff; the coordinator
// is the redirected SendSyncRequest. See DESIGN.md §4 C04.

import (
	"context"
	"errors"

	"seata.apache.org/seata-go/pkg/protocol/message"
	"seata.apache.org/seata-go/pkg/remoting/getty"
	"seata.apache.org/seata-go/pkg/zzverif/vrt"
)

const (
	c04Begin = iota
	c04Commit
	c04Rollback
	c04Other
)

// reply kinds of the coordinator stub
const (
	c04Success   = iota // reply with success result code
	c04Failed           // reply with failed result code
	c04Transport        // transport error / no reply (timeout error of SendSyncRequest)
	c04Empty            // the request goes out without error but no reply body comes back
)

type c04Call struct {
	kind  int
	xid   string
	reply int
}

type c04Runaway struct{}

type c04Env struct {
	calls    []c04Call
	cancel   context.CancelFunc
	cancelAt int // number of the second-phase call at which the context is cancelled before the reply (-1: never)
	phase2   int
	xid      string
	maxCalls int
}

func (e *c04Env) send(_ *getty.GettyRemotingClient, msg interface{}) (interface{}, error) {
	if len(e.calls) >= e.maxCalls {
		panic(c04Runaway{})
	}
	switch m := msg.(type) {
	case message.GlobalBeginRequest:
		r := vrt.Choice("begin.reply", 4)
		e.calls = append(e.calls, c04Call{kind: c04Begin, reply: r})
		switch r {
		case c04Success:
			return message.GlobalBeginResponse{
				AbstractTransactionResponse: message.AbstractTransactionResponse{
					AbstractResultMessage: message.AbstractResultMessage{ResultCode: message.ResultCodeSuccess}},
				Xid: e.xid}, nil
		case c04Failed:
			return message.GlobalBeginResponse{Xid: e.xid}, nil // ResultCodeFailed == 0
		case c04Transport:
			return nil, errors.New("wait response timeout")
		default:
			return nil, nil
		}
	case message.GlobalCommitRequest, message.GlobalRollbackRequest:
		kind, xid := c04Commit, ""
		if c, ok := m.(message.GlobalCommitRequest); ok {
			xid = c.Xid
		} else {
			kind, xid = c04Rollback, m.(message.GlobalRollbackRequest).Xid
		}
		if e.phase2 == e.cancelAt {
			e.cancel()
		}
		e.phase2++
		r := vrt.Choice("phase2.reply", 4)
		e.calls = append(e.calls, c04Call{kind: kind, xid: xid, reply: r})
		if r == c04Transport {
			return nil, errors.New("wait response timeout")
		}
		if r == c04Empty {
			return nil, nil
		}
		end := message.AbstractGlobalEndResponse{GlobalStatus: message.GlobalStatus(vrt.Uint8("phase2.status"))}
		if r == c04Success {
			end.ResultCode = message.ResultCodeSuccess
		}
		if kind == c04Commit {
			return message.GlobalCommitResponse{AbstractGlobalEndResponse: end}, nil
		}
		return message.GlobalRollbackResponse{AbstractGlobalEndResponse: end}, nil
	}
	e.calls = append(e.calls, c04Call{kind: c04Other})
	return nil, errors.New("unexpected request")
}

func (e *c04Env) count(kind int) int {
	n := 0
	for _, c := range e.calls {
		if c.kind == kind {
			n++
		}
	}
	return n
}

// VerifC04Gtx: one top-level global transaction (propagation Required, no
// enclosing transaction).
func VerifC04Gtx() {
	maxCount := vrt.Param("maxcount", 2)
	commitRetry := vrt.Choice("commitRetryCount", maxCount+1)
	rollbackRetry := vrt.Choice("rollbackRetryCount", maxCount+1)
	config = TmConfig{CommitRetryCount: commitRetry, RollbackRetryCount: rollbackRetry}

	ctx, cancel := context.WithCancel(context.Background())
	defer cancel()
	env := &c04Env{cancel: cancel, cancelAt: -1, xid: vrt.String("xid", 2), maxCalls: 1 + maxCount + 3}
	vrt.Redirect((*getty.GettyRemotingClient).SendSyncRequest, env.send)

	// cancellation instant: 0 never, 1 before the call, 2 during business,
	// 3.. at the k-th second-phase request (before the coordinator replies)
	cancelPoint := vrt.Choice("cancel", 5)
	if cancelPoint == 1 {
		cancel()
	}
	if cancelPoint >= 3 {
		env.cancelAt = cancelPoint - 3
	}
	business := vrt.Choice("business", 3) // 0 nil, 1 error, 2 panic
	sawXid := ""
	ran := false

	var err error
	var escaped interface{}
	func() {
		defer func() { escaped = recover() }()
		err = WithGlobalTx(ctx, &GtxConfig{Name: "c04"}, func(ctx context.Context) error {
			ran = true
			sawXid = GetXID(ctx)
			if cancelPoint == 2 {
				cancel()
			}
			switch business {
			case 1:
				return errors.New("business failed")
			case 2:
				panic("business panic")
			}
			return nil
		})
	}()
	_, runaway := escaped.(c04Runaway)

	// termination / retry bound: the stub gives up after maxCalls requests
	count := commitRetry
	if business != 0 {
		count = rollbackRetry
	}
	if count == 0 {
		vrt.Assert(!runaway, "c04/retries-bounded/count=0")
	} else {
		vrt.Assert(!runaway, "c04/retries-bounded")
	}
	if runaway {
		return
	}
	vrt.Assert(escaped == nil, "c04/no-panic-escapes")
	if escaped != nil {
		return
	}

	nb, nc, nr := env.count(c04Begin), env.count(c04Commit), env.count(c04Rollback)
	vrt.Assert(env.count(c04Other) == 0, "c04/only-begin-commit-rollback")
	vrt.Assert(nb == 1, "c04/exactly-one-begin")
	vrt.Assert(nc == 0 || nr == 0, "c04/never-both")
	beginOK := env.calls[0].reply == c04Success
	if !beginOK {
		vrt.Reach("c04/begin-failed")
		vrt.Assert(!ran, "c04/begin-failed=>business-not-run")
		vrt.Assert(nc == 0 && nr == 0, "c04/begin-failed=>no-second-phase")
		vrt.Assert(err != nil, "c04/begin-failed=>error")
		return
	}
	vrt.Assert(ran && sawXid == env.xid, "c04/business-sees-xid")
	businessOK := business == 0
	if businessOK {
		vrt.Assert(nr == 0, "c04/business-ok=>no-rollback-request")
	} else {
		vrt.Assert(nc == 0, "c04/business-failed=>no-commit-request")
	}
	cancelledBeforePhase2 := cancelPoint == 1 || cancelPoint == 2
	n2 := nc + nr
	if !cancelledBeforePhase2 {
		vrt.Assert(n2 >= 1, "c04/second-phase-sent")
	}
	if count == 0 {
		vrt.Assert(n2 <= count+1, "c04/at-most-configured-retries/count=0")
	} else {
		vrt.Assert(n2 <= count+1, "c04/at-most-configured-retries")
	}
	acked, answered := false, false
	for i, c := range env.calls[1:] {
		vrt.Assert(c.xid == env.xid, "c04/second-phase-names-own-xid")
		if i > 0 {
			vrt.Assert(env.calls[i].reply == c04Transport, "c04/retry-only-after-transport-error")
		}
		if c.reply == c04Success {
			acked = true
		}
		if c.reply == c04Success || c.reply == c04Failed {
			answered = true
		}
	}
	if err == nil {
		vrt.Reach("c04/returns-nil")
		vrt.Assert(businessOK, "c04/nil=>business-ok")
		vrt.Assert(answered && nc >= 1, "c04/nil=>commit-request-answered")
		vrt.Assert(acked, "c04/nil=>commit-result-code-success")
	}
	switch business {
	case 1:
		vrt.Assert(err != nil, "c04/business-error=>error")
	case 2:
		vrt.Assert(err != nil, "c04/business-panic=>error")
	}
	if !answered {
		vrt.Reach("c04/second-phase-not-acked")
		vrt.Assert(err != nil, "c04/second-phase-unanswered=>error")
	} else if !acked {
		vrt.Assert(err != nil, "c04/second-phase-result-code-failed=>error")
	}
	if cancelledBeforePhase2 {
		vrt.Reach("c04/cancelled")
		vrt.Assert(err != nil, "c04/cancelled=>error")
	}
}

// VerifC04Nested: the initiator's decision when its callback runs an inner
// scope on the same context whose begin fails (or succeeds) and tolerates the
// inner error: the outer transaction still gets exactly one decision.
func VerifC04Nested() {
	config = TmConfig{CommitRetryCount: 1, RollbackRetryCount: 1}
	ctx, cancel := context.WithCancel(context.Background())
	defer cancel()
	var log []c04Call
	nbegin := 0
	innerBeginFails := vrt.Bool("inner.begin.fails")
	vrt.Redirect((*getty.GettyRemotingClient).SendSyncRequest, func(_ *getty.GettyRemotingClient, msg interface{}) (interface{}, error) {
		ok := message.AbstractTransactionResponse{AbstractResultMessage: message.AbstractResultMessage{ResultCode: message.ResultCodeSuccess}}
		switch m := msg.(type) {
		case message.GlobalBeginRequest:
			nbegin++
			if nbegin == 1 {
				log = append(log, c04Call{kind: c04Begin, xid: "outer"})
				return message.GlobalBeginResponse{AbstractTransactionResponse: ok, Xid: "outer"}, nil
			}
			log = append(log, c04Call{kind: c04Begin, xid: "inner"})
			if innerBeginFails {
				return nil, errors.New("wait response timeout")
			}
			return message.GlobalBeginResponse{AbstractTransactionResponse: ok, Xid: "inner"}, nil
		case message.GlobalCommitRequest:
			log = append(log, c04Call{kind: c04Commit, xid: m.Xid})
			return message.GlobalCommitResponse{AbstractGlobalEndResponse: message.AbstractGlobalEndResponse{AbstractTransactionResponse: ok}}, nil
		case message.GlobalRollbackRequest:
			log = append(log, c04Call{kind: c04Rollback, xid: m.Xid})
			return message.GlobalRollbackResponse{AbstractGlobalEndResponse: message.AbstractGlobalEndResponse{AbstractTransactionResponse: ok}}, nil
		}
		return nil, errors.New("unexpected request")
	})
	innerMode := []Propagation{RequiresNew, Never, Mandatory, Required, NotSupported, Supports}[vrt.Choice("inner.mode", 6)]
	outerFails := vrt.Bool("outer.fails")
	err := WithGlobalTx(ctx, &GtxConfig{Name: "outer"}, func(c context.Context) error {
		_ = WithGlobalTx(c, &GtxConfig{Name: "inner", Propagation: innerMode}, func(context.Context) error { return nil })
		if outerFails {
			return errors.New("outer business failed")
		}
		return nil
	})
	vrt.Reach("nested/end")
	commits, rollbacks := 0, 0
	for _, c := range log {
		if c.xid == "outer" && c.kind == c04Commit {
			commits++
		}
		if c.xid == "outer" && c.kind == c04Rollback {
			rollbacks++
		}
	}
	if outerFails {
		vrt.Assert(err != nil, "nested/outer-error-surfaces")
		vrt.Assert(commits == 0 && rollbacks == 1, "nested/outer-rolled-back-exactly-once")
	} else {
		vrt.Assert(commits == 1 && rollbacks == 0, "nested/outer-committed-exactly-once")
		vrt.Assert(err == nil, "nested/outer-ok")
	}
}

// VerifC04Siblings: two global transactions one after the other on one seata context
// the caller made (no transaction of its own on it): each gets its own begin, its own
// decision and its own truthful answer, whatever the first one's outcome and mode.
func VerifC04Siblings() {
	config = TmConfig{CommitRetryCount: 1, RollbackRetryCount: 1}
	var log []c04Call
	nbegin := 0
	vrt.Redirect((*getty.GettyRemotingClient).SendSyncRequest, func(_ *getty.GettyRemotingClient, msg interface{}) (interface{}, error) {
		ok := message.AbstractTransactionResponse{AbstractResultMessage: message.AbstractResultMessage{ResultCode: message.ResultCodeSuccess}}
		switch m := msg.(type) {
		case message.GlobalBeginRequest:
			nbegin++
			xid := []string{"first", "second", "third"}[(nbegin-1)%3]
			log = append(log, c04Call{kind: c04Begin, xid: xid})
			return message.GlobalBeginResponse{AbstractTransactionResponse: ok, Xid: xid}, nil
		case message.GlobalCommitRequest:
			log = append(log, c04Call{kind: c04Commit, xid: m.Xid})
			return message.GlobalCommitResponse{AbstractGlobalEndResponse: message.AbstractGlobalEndResponse{AbstractTransactionResponse: ok}}, nil
		case message.GlobalRollbackRequest:
			log = append(log, c04Call{kind: c04Rollback, xid: m.Xid})
			return message.GlobalRollbackResponse{AbstractGlobalEndResponse: message.AbstractGlobalEndResponse{AbstractTransactionResponse: ok}}, nil
		}
		return nil, errors.New("unexpected request")
	})
	ctx := InitSeataContext(context.Background())
	modes := []Propagation{Required, RequiresNew, Supports}
	firstMode := modes[vrt.Choice("first.mode", 2)]
	firstFails, secondFails := vrt.Bool("first.business.fails"), vrt.Bool("second.business.fails")
	secondMode := modes[vrt.Choice("second.mode", 3)]
	run := func(name string, mode Propagation, fails bool) (string, error) {
		saw := "?"
		err := WithGlobalTx(ctx, &GtxConfig{Name: name, Propagation: mode}, func(c context.Context) error {
			saw = GetXID(c)
			if fails {
				return errors.New("business failed")
			}
			return nil
		})
		return saw, err
	}
	saw1, err1 := run("first", firstMode, firstFails)
	vrt.Assert(saw1 == "first" && (err1 != nil) == firstFails, "siblings/first-scope-runs-its-own-transaction")
	n1 := len(log)
	saw2, err2 := run("second", secondMode, secondFails)
	vrt.Reach("siblings/end")
	after := log[n1:]
	if secondMode == Supports {
		// nothing is going on on this context: the scope runs without a transaction
		vrt.Assert(saw2 == "" && len(after) == 0, "siblings/supports-after-a-finished-transaction-runs-without-one")
		return
	}
	vrt.Assert(saw2 == "second", "siblings/second-scope-begins-its-own-transaction")
	vrt.Assert((err2 != nil) == secondFails, "siblings/second-scope-answers-its-own-outcome")
	want := c04Commit
	if secondFails {
		want = c04Rollback
	}
	vrt.Assert(len(after) == 2 && after[0].kind == c04Begin && after[1].kind == want && after[1].xid == "second", "siblings/second-scope-gets-its-own-decision")
}
