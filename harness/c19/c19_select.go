package loadbalance

// C19 (selection) — only live sessions are chosen. Real Select and the five
// policies, real Consistent ring; md5 redirected to an arbitrary (functional)
// hash, rand arbitrary in range, activity counters and the round-robin sequence
// symbolic. See DESIGN.md §4 C19.

import (
	"crypto/md5"
	"math/rand"
	"sync"

	getty "github.com/apache/dubbo-getty"

	"seata.apache.org/seata-go/pkg/remoting/rpc"
	"seata.apache.org/seata-go/pkg/zzverif/vrt"
)

type c19Session struct {
	getty.Session
	name   string
	addr   string
	closed bool
}

func (s *c19Session) IsClosed() bool     { return s.closed }
func (s *c19Session) RemoteAddr() string { return s.addr }

var c19Policies = []string{"RandomLoadBalance", "XID", "RoundRobinLoadBalance", "ConsistentHashLoadBalance", "LeastActiveLoadBalance", "no-such-policy"}

// (the second address is a textual prefix of the first: 809 / 8091)
var c19Addrs = []string{"10.0.0.1:8091", "10.0.0.1:809", "10.0.0.1:8091"}

// xid shapes: names the address of session 0 / of session 1 / of nobody; not of the ip:port:id form
var c19Xids = []string{"10.0.0.1:8091:77", "10.0.0.1:809:77", "10.9.9.9:8091:77", "plain-xid", "a:b", "1:2:3:4"}

type c19World struct {
	sessions *sync.Map
	all      []*c19Session
	hashes   map[string][16]byte
	nhash    int
}

func c19Setup(nsess int) *c19World {
	w := &c19World{sessions: &sync.Map{}, hashes: map[string][16]byte{}}
	defaultVirtualNodeNumber = vrt.Param("vnodes", 2)
	vrt.Redirect(md5.Sum, func(data []byte) [16]byte {
		k := string(data)
		if h, ok := w.hashes[k]; ok {
			return h
		}
		var h [16]byte
		names := []string{"h0", "h1", "h2", "h3", "h4", "h5", "h6", "h7", "h8", "h9", "h10", "h11"}
		// only the first four bytes are used by Consistent.hash; keep positions small
		// so that orderings, not magnitudes, are what the solver explores
		h[3] = vrt.Uint8(names[w.nhash])
		w.nhash++
		w.hashes[k] = h
		return h
	})
	vrt.Redirect((*rand.Rand).Intn, func(_ *rand.Rand, n int) int {
		v := vrt.Int("rand")
		vrt.Assume(v >= 0 && v < n)
		return v
	})
	sequence = vrt.Int32("sequence")
	vrt.Assume(sequence >= 0)
	names := []string{"s0", "s1", "s2"}
	for i := 0; i < nsess; i++ {
		s := &c19Session{name: names[i], addr: c19Addrs[i], closed: vrt.Bool(names[i] + ".closed")}
		w.all = append(w.all, s)
		w.sessions.Store(s, true)
		rpc.GetStatus(s.addr).Active = vrt.Int32(names[i] + ".active")
	}
	return w
}

func (w *c19World) anyOpen() bool {
	for _, s := range w.all {
		if !s.closed {
			return true
		}
	}
	return false
}

// check asserts the selection clause for one call.
func (w *c19World) check(tag, policy, xid string, got getty.Session) {
	if !w.anyOpen() {
		vrt.Reach("select/none-open")
		vrt.Assert(got == nil, "select/none-open=>nil/"+tag)
		return
	}
	vrt.Reach("select/some-open")
	vrt.Assert(got != nil, "select/some-open=>non-nil/"+tag)
	if got == nil {
		return
	}
	s, ok := got.(*c19Session)
	registered := false
	for _, r := range w.all {
		if ok && r == s {
			registered = true
		}
	}
	vrt.Assert(registered, "select/result-is-registered/"+tag)
	if !registered {
		return
	}
	vrt.Assert(!s.closed, "select/result-is-open/"+tag)
	if policy == "XID" {
		for _, r := range w.all {
			if !r.closed && r.addr+":77" == xid {
				vrt.Reach("select/xid-match")
				vrt.Assert(s.addr == r.addr, "select/xid-goes-to-its-server")
			}
		}
	}
}

// VerifC19Select: one selection from an arbitrary session set.
func VerifC19Select() {
	nsess := 1 + vrt.Choice("sessions", vrt.Param("maxsessions", 2))
	w := c19Setup(nsess)
	p := vrt.Choice("policy", len(c19Policies))
	policy := c19Policies[p]
	xid := c19Xids[vrt.Choice("xid", len(c19Xids))]
	got := Select(policy, w.sessions, xid)
	w.check(policy, policy, xid, got)
}

// VerifC19History: two selections with sessions closing / opening in between
// (the consistent-hash ring is built at the first call).
func VerifC19History() {
	w := c19Setup(2)
	p := vrt.Choice("policy", 5)
	policy := c19Policies[p]
	xid := c19Xids[vrt.Choice("xid", 3)]
	got := Select(policy, w.sessions, xid)
	w.check(policy+"/first", policy, xid, got)
	// events between the two requests
	switch vrt.Choice("event", 4) {
	case 0: // a session closes
		w.all[vrt.Choice("which", 2)].closed = true
	case 1: // a closed session's server comes back with a new session
		s := &c19Session{name: "s2", addr: c19Addrs[2], closed: false}
		w.all = append(w.all, s)
		w.sessions.Store(s, true)
	case 2: // one closes, a new one opens
		w.all[vrt.Choice("which", 2)].closed = true
		s := &c19Session{name: "s2", addr: c19Addrs[2], closed: false}
		w.all = append(w.all, s)
		w.sessions.Store(s, true)
	default: // nothing happens
	}
	vrt.Settle() // let an asynchronous ring refresh finish, if one was started
	got = Select(policy, w.sessions, xid)
	w.check(policy+"/second", policy, xid, got)
}
