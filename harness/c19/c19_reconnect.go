package tcc

// C19 (reconnect) — after the connection to the coordinator is lost and
// re-established the client announces itself again as transaction manager and
// as resource manager for every resource it had registered. Real
// gettyClientHandler.OnOpen / OnClose / OnMessage, session manager, the real
// request path (SendSyncRequest -> selectSession -> WritePkg -> future ->
// response processor), RMRemoting.RegisterResource via NewTCCServiceProxy;
// sessions are recording stubs, the coordinator a script.

import (
	"context"
	"sync"
	"time"

	getty "github.com/apache/dubbo-getty"
	gxtime "github.com/dubbogo/gost/time"

	"seata.apache.org/seata-go/pkg/protocol/branch"
	"seata.apache.org/seata-go/pkg/protocol/message"
	sgetty "seata.apache.org/seata-go/pkg/remoting/getty"
	"seata.apache.org/seata-go/pkg/remoting/processor/client"
	"seata.apache.org/seata-go/pkg/tm"
	"seata.apache.org/seata-go/pkg/zzverif/vrt"
)

type c19rSession struct {
	getty.Session
	mu      sync.Mutex
	name    string
	written []message.RpcMessage
	closed  bool
	attrs   map[interface{}]interface{}
}

func (s *c19rSession) IsClosed() bool                         { return s.closed }
func (s *c19rSession) RemoteAddr() string                     { return "10.0.0.1:8091" }
func (s *c19rSession) Stat() string                           { return s.name }
func (s *c19rSession) Close()                                 { s.closed = true }
func (s *c19rSession) GetAttribute(k interface{}) interface{} { return s.attrs[k] }
func (s *c19rSession) SetAttribute(k, v interface{})          { s.attrs[k] = v }
func (s *c19rSession) WritePkg(pkg interface{}, timeout time.Duration) (int, int, error) {
	s.mu.Lock()
	defer s.mu.Unlock()
	if m, ok := pkg.(message.RpcMessage); ok {
		s.written = append(s.written, m)
	}
	return 0, 0, nil
}

type c19rSvc struct {
	name    string
	commits int
}

func (s *c19rSvc) GetActionName() string { return s.name }
func (s *c19rSvc) Prepare(ctx context.Context, params interface{}) (bool, error) {
	return true, nil
}
func (s *c19rSvc) Commit(ctx context.Context, bac *tm.BusinessActionContext) (bool, error) {
	s.commits++
	return true, nil
}
func (s *c19rSvc) Rollback(ctx context.Context, bac *tm.BusinessActionContext) (bool, error) {
	return true, nil
}

const c19rScale = 100

type c19rWorld struct {
	cur      *c19rSession
	sessions []*c19rSession
	answered map[int32]bool
}

func (w *c19rWorld) open(name string) *c19rSession {
	s := &c19rSession{name: name, attrs: map[interface{}]interface{}{}}
	w.sessions = append(w.sessions, s)
	w.cur = s
	_ = sgetty.GetGettyClientHandlerInstance().OnOpen(s)
	vrt.Settle()
	return s
}

// serve lets the coordinator answer every request written so far on the
// current session that it has not answered yet.
func (w *c19rWorld) serve() {
	s := w.cur
	for k := 0; k < len(s.written); k++ {
		m := s.written[k]
		if w.answered[m.ID] {
			continue
		}
		var body interface{}
		switch m.Body.(type) {
		case message.RegisterRMRequest:
			body = message.RegisterRMResponse{AbstractIdentifyResponse: message.AbstractIdentifyResponse{Identified: true}}
		case message.RegisterTMRequest:
			body = message.RegisterTMResponse{AbstractIdentifyResponse: message.AbstractIdentifyResponse{Identified: true}}
		case message.GlobalBeginRequest:
			body = message.GlobalBeginResponse{Xid: "10.0.0.1:8091:42"}
		default:
			continue
		}
		w.answered[m.ID] = true
		reply := message.RpcMessage{ID: m.ID, Type: message.GettyRequestTypeResponse, Body: body}
		go sgetty.GetGettyClientHandlerInstance().OnMessage(s, reply)
		vrt.Settle()
	}
}

func c19rCount(s *c19rSession, match func(interface{}) bool) int {
	n := 0
	for _, m := range s.written {
		if match(m.Body) {
			n++
		}
	}
	return n
}

// VerifC19Reconnect: open, register two resources, lose the connection at a
// chosen point (once or twice), reconnect; then the new session must have been
// told about the TM and both resources, a new global transaction must begin
// and a phase-two request for an earlier branch must reach its action.
func VerifC19Reconnect() {
	vrt.Redirect((*gxtime.TimerWheel).After, func(_ *gxtime.TimerWheel, d time.Duration) <-chan time.Time {
		return time.After(d / c19rScale)
	})
	sgetty.VerifInit("RandomLoadBalance")
	client.RegisterProcessor()
	InitTCC()
	w := &c19rWorld{answered: map[int32]bool{}}
	s1 := w.open("s1")
	vrt.Assert(c19rCount(s1, func(b interface{}) bool { _, ok := b.(message.RegisterTMRequest); return ok }) == 1, "c19/first-connection-announces-the-tm")

	svcA, svcB := &c19rSvc{name: "actionA"}, &c19rSvc{name: "actionB"}
	regDone := 0
	for _, svc := range []*c19rSvc{svcA, svcB} {
		svc := svc
		go func() {
			if _, err := NewTCCServiceProxy(svc); err == nil {
				regDone++
			}
		}()
		vrt.Settle()
		w.serve()
	}
	vrt.Assert(regDone == 2, "c19/resources-registered-on-the-first-connection")
	isRM := func(name string) func(interface{}) bool {
		return func(b interface{}) bool {
			r, ok := b.(message.RegisterRMRequest)
			return ok && r.ResourceIds == name
		}
	}
	vrt.Assert(c19rCount(s1, isRM("actionA")) == 1 && c19rCount(s1, isRM("actionB")) == 1, "c19/resources-announced-on-the-first-connection")

	losses := 1 + vrt.Choice("losses", vrt.Param("maxlosses", 2))
	for l := 0; l < losses; l++ {
		// where the loss strikes: idle, or with a request in flight (which then times out)
		inFlight := vrt.Bool("loss.with.request.in.flight")
		var pendingErr error
		pendingDone := false
		if inFlight {
			go func() {
				_, pendingErr = sgetty.GetGettyRemotingClient().SendSyncRequest(message.GlobalBeginRequest{TransactionName: "pending"})
				pendingDone = true
			}()
			vrt.Settle()
		}
		old := w.cur
		// the peer or the network ended the connection (the session is closed when the
		// handler hears of it), or the event arrives while the session still counts as open
		if vrt.Bool("session.already.closed.when.the.handler.is.told") {
			old.closed = true
		}
		sgetty.GetGettyClientHandlerInstance().OnClose(old)
		old.closed = true
		s := w.open([]string{"s2", "s3"}[l])
		last := l == losses-1
		// a connection that is lost again may go before the coordinator answered the announcements on it
		answered := last || vrt.Bool("coordinator.answers.before.next.loss")
		if answered {
			w.serve()
		} else {
			vrt.Reach("c19/lost-again-while-announcing")
		}
		vrt.Reach("c19/reconnected")
		vrt.Assert(sgetty.VerifSessionCount() == 1, "c19/only-the-new-session-is-registered")
		vrt.Assert(c19rCount(s, func(b interface{}) bool { _, ok := b.(message.RegisterTMRequest); return ok }) == 1, "c19/reconnect-announces-the-tm")
		if last {
			// announcements are sent one after the other, each waiting for its answer (or its timeout)
			for k := 0; k < 3; k++ {
				time.Sleep(21 * time.Second / c19rScale)
				vrt.Settle()
				w.serve()
			}
			vrt.Assert(c19rCount(s, isRM("actionA")) >= 1 && c19rCount(s, isRM("actionB")) >= 1, "c19/reconnect-announces-every-registered-resource")
		}
		if inFlight {
			time.Sleep(21 * time.Second / c19rScale)
			vrt.Settle()
			vrt.Assert(pendingDone && pendingErr != nil, "c19/request-in-flight-at-the-loss-fails-with-an-error")
		}
	}

	// a new global transaction begins on the new connection
	var resp interface{}
	var berr error
	began := false
	go func() {
		resp, berr = sgetty.GetGettyRemotingClient().SendSyncRequest(message.GlobalBeginRequest{TransactionName: "after"})
		began = true
	}()
	vrt.Settle()
	w.serve()
	r, isResp := resp.(message.GlobalBeginResponse)
	vrt.Assert(began && berr == nil && isResp && r.Xid == "10.0.0.1:8091:42", "c19/new-global-transaction-begins-after-reconnect")

	// a phase-two request for a branch registered before the loss reaches its action
	nrep := len(w.cur.written)
	sgetty.GetGettyClientHandlerInstance().OnMessage(w.cur, message.RpcMessage{ID: 900, Type: message.GettyRequestTypeRequestSync,
		Body: message.BranchCommitRequest{AbstractBranchEndRequest: message.AbstractBranchEndRequest{Xid: "10.0.0.1:8091:7", BranchId: 5, BranchType: branch.BranchTypeTCC, ResourceId: "actionA"}}})
	vrt.Settle()
	vrt.Assert(svcA.commits == 1 && svcB.commits == 0, "c19/phase-two-after-reconnect-reaches-the-action")
	answered := false
	for _, m := range w.cur.written[nrep:] {
		if rsp, ok := m.Body.(message.BranchCommitResponse); ok && m.ID == 900 && rsp.BranchStatus == branch.BranchStatusPhasetwoCommitted {
			answered = true
		}
	}
	vrt.Assert(answered, "c19/phase-two-after-reconnect-is-answered-on-the-new-session")
}
