package tcc

// Engine self-test: the encoding/json model against the real package (every
// observation is compared with the native run by the validation replays).

import (
	"encoding/json"
	"reflect"
	"strconv"

	"seata.apache.org/seata-go/pkg/zzverif/vrt"
)

type stInner struct {
	X int32  `json:"x"`
	Y string `json:"y,omitempty"`
}

type stEmb struct {
	E1 int64
	e2 int64
}

type stText uint8

func (t stText) MarshalText() ([]byte, error) { return []byte{'k', byte('0' + t%10)}, nil }
func (t *stText) UnmarshalText(b []byte) error {
	if len(b) == 2 {
		*t = stText(b[1] - '0')
	}
	return nil
}

type stCustom struct{ V int64 }

func (c *stCustom) MarshalJSON() ([]byte, error) {
	return json.Marshal(map[string]interface{}{"wrapped": c.V})
}
func (c *stCustom) UnmarshalJSON(b []byte) error {
	var m map[string]interface{}
	if err := json.Unmarshal(b, &m); err != nil {
		return err
	}
	if f, ok := m["wrapped"].(float64); ok {
		c.V = int64(f)
	}
	return nil
}

type stDoc struct {
	A     int64            `json:"a"`
	U     uint64           `json:"u"`
	B     bool             `json:"b"`
	S     string           `json:"s"`
	F     float64          `json:"f"`
	P     *stInner         `json:"p"`
	Nil   *stInner         `json:"nil"`
	L     []stInner        `json:"l"`
	M     map[string]int16 `json:"m"`
	I     interface{}      `json:"i"`
	Skip  int              `json:"-"`
	Omit  int              `json:"omit,omitempty"`
	T     stText           `json:"t"`
	C     []stCustom       `json:"c"`
	Bytes []byte           `json:"bytes"`
	stEmb
	lower int
}

func VerifSTJsonConcrete() {
	d := stDoc{A: -5, U: 18446744073709551615, B: true, S: "h<i>\"\xff", F: 1.5, P: &stInner{X: 7}, L: []stInner{{X: 1, Y: "y"}}, M: map[string]int16{"b": 2, "a": 1}, I: []interface{}{1, "x", nil}, Skip: 9, T: 3, C: []stCustom{{V: 11}}, Bytes: []byte{1, 2, 3, 255}}
	d.E1 = 4
	b, err := json.Marshal(&d)
	vrt.Assert(err == nil, "st/marshal-ok")
	vrt.Observe("text", string(b))
	var back stDoc
	err = json.Unmarshal(b, &back)
	if err != nil {
		vrt.Observe("err", err.Error())
	}
	vrt.Assert(err == nil, "st/unmarshal-ok")
	vrt.Observe("back.A", back.A)
	vrt.Observe("back.U", back.U)
	vrt.Observe("back.S", back.S)
	vrt.Observe("back.P.X", back.P.X)
	vrt.Observe("back.L0.Y", back.L[0].Y)
	vrt.Observe("back.M.a", back.M["a"])
	vrt.Observe("back.T", uint8(back.T))
	vrt.Observe("back.C0", back.C[0].V)
	vrt.Observe("back.Bytes", back.Bytes)
	vrt.Observe("back.E1", back.E1)
	vrt.Observe("back.nil", back.Nil == nil)
	var any map[string]interface{}
	err = json.Unmarshal(b, &any)
	vrt.Assert(err == nil, "st/unmarshal-any-ok")
	vrt.Observe("any.a", any["a"].(float64))
	vrt.Observe("any.u", any["u"].(float64))
	vrt.Observe("any.len", len(any))
	_, hasSkip := any["Skip"]
	vrt.Observe("any.skip", hasSkip)
	// non-addressable value: the pointer-receiver marshaler of a field is not used
	b2, _ := json.Marshal(struct{ C stCustom }{stCustom{5}})
	vrt.Observe("text2", string(b2))
	// errors
	var n int8
	e1 := json.Unmarshal([]byte("300"), &n)
	vrt.Observe("e1", e1 != nil)
	e2 := json.Unmarshal([]byte("{bad"), &any)
	vrt.Observe("e2", e2 != nil)
	var s string
	e3 := json.Unmarshal([]byte("12"), &s)
	vrt.Observe("e3", e3 != nil)
	var lower struct{ Name string }
	json.Unmarshal([]byte(`{"NAME":"x"}`), &lower)
	vrt.Observe("casefold", lower.Name)
}

// VerifSTJsonSymbolic: symbolic leaves through Marshal/Unmarshal, copies and
// string conversion of the document.
func VerifSTJsonSymbolic() {
	a := vrt.Int64("a")
	u := vrt.Uint64("u")
	s := vrt.String("s", 2)
	x := vrt.Int32("x")
	d := stDoc{A: a, U: u, S: s, P: &stInner{X: x}, M: map[string]int16{"k": vrt.Int16("m")}, C: []stCustom{{V: a}}, T: stText(vrt.Uint8("t"))}
	b, err := json.Marshal(&d)
	vrt.Assert(err == nil, "st/sym-marshal-ok")
	wire := string(b)
	cp := []byte(wire)
	var back stDoc
	err = json.Unmarshal(cp, &back)
	vrt.Assert(err == nil, "st/sym-unmarshal-ok")
	vrt.Assert(back.A == a && back.U == u && back.P != nil && back.P.X == x && back.M["k"] == d.M["k"], "st/sym-struct-roundtrip-exact")
	vrt.Assert(back.C[0].V == int64(float64(a)), "st/sym-custom-goes-through-float64")
	vrt.Assert(uint8(back.T) == uint8(d.T)%10, "st/sym-text-marshaler")
	ascii := s[0] < 0x80 && s[1] < 0x80
	if ascii {
		vrt.Assert(back.S == s, "st/sym-ascii-string-kept")
	}
	vrt.Observe("back.S", back.S)
	var any map[string]interface{}
	err = json.Unmarshal(cp, &any)
	vrt.Assert(err == nil, "st/sym-unmarshal-any-ok")
	f := any["a"].(float64)
	vrt.Observe("any.a", f)
	vrt.Observe("any.u", any["u"].(float64))
	vrt.Assert(f == float64(a), "st/sym-int-becomes-nearest-float64")
	if a > -(1<<53) && a < (1<<53) {
		vrt.Assert(int64(f) == a, "st/sym-small-int-exact")
	}
	vrt.Reach("st/sym-done")
}

// VerifSTFloatConv: float conversions of symbolic integers (engine self-test).
func VerifSTFloatConv() {
	d := vrt.Int64("d")
	vrt.Assume(d >= 0 && d < 100000000000000)
	sec := d / 1000000000
	nsec := d % 1000000000
	f := float64(sec) + float64(nsec)/1e9
	u := uint32(f) * 1000
	vrt.Observe("u", u)
	vrt.Assert(u == uint32(d/1000000000)*1000, "st/float-seconds-truncation")
	vrt.Reach("st/float-done")
}

// VerifSTFloat32Text: single precision through its shortest decimal text (what
// database/sql does when a float32 driver value is assigned to a *float64).
func VerifSTFloat32Text() {
	src := float32(1.1)
	if vrt.Bool("half") {
		src = 0.5
	}
	rv := reflect.ValueOf(src)
	txt := strconv.FormatFloat(rv.Float(), 'g', -1, 32)
	vrt.Observe("txt", txt)
	f, err := strconv.ParseFloat(txt, 64)
	vrt.Observe("f", f)
	vrt.Observe("wide", float64(src))
	vrt.Assert(err == nil && (txt == "1.1" || txt == "0.5"), "st/float32-shortest-text")
	vrt.Assert(f == 1.1 || f == 0.5, "st/float32-text-parses-to-nearest-double")
	vrt.Assert(src == 0.5 || float64(src) != 1.1, "st/float32-widening-is-not-the-double")
	vrt.Reach("st/float32-done")
}
