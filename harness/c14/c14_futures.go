package client

// C14 — concurrent requests are answered by their own responses; stragglers
// do no harm. Real GettyRemotingClient.SendSyncRequest / SendAsyncRequest /
// SendAsyncResponse, GettyRemoting.sendAsync / NotifyRpcMessageResponse,
// syncCallback (timer wheel on the virtual clock), gettyClientHandler.OnMessage
// / OnCron (heart beat), the response and heart-beat processors, the session
// manager's selectSession - with callers as goroutines and the coordinator as
// a script of reply events explored by the engine.

import (
	"errors"
	"strconv"
	"sync"
	"time"

	getty "github.com/apache/dubbo-getty"
	gxtime "github.com/dubbogo/gost/time"

	"seata.apache.org/seata-go/pkg/protocol/message"
	sgetty "seata.apache.org/seata-go/pkg/remoting/getty"
	"seata.apache.org/seata-go/pkg/zzverif/vrt"
)

type c14Session struct {
	getty.Session
	mu      sync.Mutex
	written []message.RpcMessage
	closed  bool
	attrs   map[interface{}]interface{}
	// the coordinator answers this request so fast that the reply is processed
	// before WritePkg returns to the sender
	instant func(m message.RpcMessage)
	// the next write fails (timeout / broken pipe): nothing goes out
	failNext bool
}

func (s *c14Session) IsClosed() bool     { return s.closed }
func (s *c14Session) RemoteAddr() string { return "10.0.0.1:8091" }
func (s *c14Session) Stat() string       { return "c14-session" }
func (s *c14Session) Close()             { s.closed = true }
func (s *c14Session) GetAttribute(k interface{}) interface{} {
	return s.attrs[k]
}
func (s *c14Session) SetAttribute(k, v interface{}) { s.attrs[k] = v }
func (s *c14Session) WritePkg(pkg interface{}, timeout time.Duration) (int, int, error) {
	s.mu.Lock()
	defer s.mu.Unlock()
	if s.failNext {
		s.failNext = false
		return 0, 0, errors.New("write tcp: i/o timeout")
	}
	m, ok := pkg.(message.RpcMessage)
	if ok {
		s.written = append(s.written, m)
	}
	if ok && s.instant != nil {
		s.mu.Unlock()
		s.instant(m)
		s.mu.Lock()
	}
	return 0, 0, nil
}

// requestID finds the id the client put on the request carrying tag.
func (s *c14Session) requestID(tag string) (int32, bool) {
	s.mu.Lock()
	defer s.mu.Unlock()
	for _, m := range s.written {
		if b, ok := m.Body.(message.GlobalBeginRequest); ok && b.TransactionName == tag {
			return m.ID, true
		}
	}
	return 0, false
}

type c14Caller struct {
	tag      string
	done     bool
	resp     interface{}
	err      error
	answered bool   // the script delivered a reply carrying its id in time
	by       string // tag of the first such reply
}

// time scale: the request timeout (20 s) is shrunk natively and in the engine alike
const c14Scale = 100

type c14World struct {
	s        *c14Session
	callers  []*c14Caller
	started  int
	finished int
	handler  interface {
		OnMessage(getty.Session, interface{})
	}
	lateStart int
}

func c14Setup() *c14World {
	vrt.Redirect((*gxtime.TimerWheel).After, func(_ *gxtime.TimerWheel, d time.Duration) <-chan time.Time {
		return time.After(d / c14Scale)
	})
	sgetty.VerifInit("RandomLoadBalance")
	// the id sequence has run for an arbitrary time (wrap-around included)
	sgetty.VerifSetNextID(vrt.Uint32("ids.start"))
	initHeartBeat()
	initOnResponse()
	w := &c14World{s: &c14Session{attrs: map[interface{}]interface{}{}}}
	sgetty.VerifRegisterSession(w.s)
	return w
}

// deliver hands one inbound package to the real handler on its own goroutine,
// as getty's task pool does.
func (w *c14World) deliver(m message.RpcMessage) {
	w.started++
	go func() {
		sgetty.GetGettyClientHandlerInstance().OnMessage(w.s, m)
		w.finished++
	}()
	vrt.Settle()
}

func (w *c14World) call(k int) {
	c := w.callers[k]
	go func() {
		c.resp, c.err = sgetty.GetGettyRemotingClient().SendSyncRequest(message.GlobalBeginRequest{TransactionName: c.tag})
		c.done = true
	}()
	vrt.Settle()
}

func c14Reply(id int32, tag string) message.RpcMessage {
	return message.RpcMessage{ID: id, Type: message.GettyRequestTypeResponse, Body: message.GlobalBeginResponse{Xid: "xid-for-" + tag}}
}

// event: one thing the outside world does while requests are pending.
//
//	0..n-1  reply to caller k      n  reply with an id nobody uses
//	n+1     heart-beat tick (OnCron) followed by its PONG
//	n+2     the client answers a phase-two request with an arbitrary (server chosen) id
//	n+3     the client sends a one-way message (nobody answers it)
//	n+4     the connection is lost (OnClose) and a new one is opened
//	n+5     nothing
func (w *c14World) event(name string, late bool) {
	n := len(w.callers)
	e := vrt.Choice(name, n+6)
	switch {
	case e < n:
		id, ok := w.s.requestID(w.callers[e].tag)
		if !ok {
			return
		}
		w.replyWith(id, w.callers[e].tag, late)
	case e == n:
		// a reply whose id is arbitrary: it may or may not be somebody's
		vrt.Reach("c14/arbitrary-id-reply")
		w.replyWith(vrt.Int32(name+".id"), "arbitrary", late)
	case e == n+1:
		vrt.Reach("c14/heartbeat")
		before := len(w.s.written)
		sgetty.GetGettyClientHandlerInstance().OnCron(w.s)
		if len(w.s.written) > before {
			hb := w.s.written[len(w.s.written)-1]
			w.deliver(message.RpcMessage{ID: hb.ID, Type: message.GettyRequestTypeHeartbeatResponse, Body: message.HeartBeatMessagePong})
		}
	case e == n+2:
		vrt.Reach("c14/phase-two-answer")
		// the coordinator numbers its requests itself: any id, in particular a pending request's
		// ... and the write of the answer may fail
		w.s.failNext = vrt.Bool(name + ".write.fails")
		_ = sgetty.GetGettyRemotingClient().SendAsyncResponse(vrt.Int32(name+".serverid"), message.BranchCommitResponse{})
		w.s.failNext = false
	case e == n+3:
		vrt.Reach("c14/one-way")
		_ = sgetty.GetGettyRemotingClient().SendAsyncRequest(message.RegisterTMRequest{})
		vrt.Settle()
	case e == n+4:
		vrt.Reach("c14/connection-lost")
		old := w.s
		sgetty.GetGettyClientHandlerInstance().OnClose(old)
		w.s = &c14Session{attrs: map[interface{}]interface{}{}, written: append([]message.RpcMessage(nil), old.written...)}
		sgetty.VerifRegisterSession(w.s)
		vrt.Assert(sgetty.VerifSessionCount() == 1, "c14/lost-connection-is-forgotten")
	}
}

// replyWith delivers a reply with the given id and notes whose request it answers.
func (w *c14World) replyWith(id int32, tag string, late bool) {
	for _, c := range w.callers {
		if cid, ok := w.s.requestID(c.tag); ok && cid == id && !late && !c.done && !c.answered {
			c.answered, c.by = true, tag
		}
	}
	w.deliver(c14Reply(id, tag))
}

func (w *c14World) checkCallers(stage string) {
	for k, c := range w.callers {
		vrt.Assert(c.done, "c14/every-caller-returns/"+stage)
		if !c.done {
			continue
		}
		if c.answered {
			vrt.Reach("c14/answered")
			r, ok := c.resp.(message.GlobalBeginResponse)
			vrt.Assert(c.err == nil && ok && r.Xid == "xid-for-"+c.by, "c14/caller-gets-the-reply-carrying-its-id/"+strconv.Itoa(k))
		} else {
			vrt.Reach("c14/unanswered")
			vrt.Assert(c.err != nil && c.resp == nil, "c14/unanswered-caller-times-out/"+strconv.Itoa(k))
		}
	}
}

// VerifC14Futures: n concurrent callers, a script of reply events while they
// wait, the timeout, late events, and a fresh request afterwards.
func VerifC14Futures() {
	w := c14Setup()
	n := vrt.Param("callers", 2)
	tags := []string{"t0", "t1", "t2"}
	for k := 0; k < n; k++ {
		w.callers = append(w.callers, &c14Caller{tag: tags[k]})
	}
	// one caller may be answered before its write returns
	fast := vrt.Choice("instant.reply.to", n+1) // n: nobody
	w.s.instant = func(m message.RpcMessage) {
		if b, ok := m.Body.(message.GlobalBeginRequest); ok && fast < n && b.TransactionName == tags[fast] && !w.callers[fast].answered {
			vrt.Reach("c14/instant-reply")
			w.callers[fast].answered, w.callers[fast].by = true, tags[fast]
			w.started++
			go func() {
				sgetty.GetGettyClientHandlerInstance().OnMessage(w.s, c14Reply(m.ID, tags[fast]))
				w.finished++
			}()
			vrt.Settle()
		}
	}
	for k := 0; k < n; k++ {
		w.call(k)
	}
	for k := 0; k < n; k++ {
		_, ok := w.s.requestID(tags[k])
		vrt.Assert(ok, "c14/request-written")
	}
	names := []string{"event1", "event2", "event3", "event4"}
	for e := 0; e < vrt.Param("events", 2); e++ {
		w.event(names[e], false)
	}
	// past the request timeout
	time.Sleep(21 * time.Second / c14Scale)
	vrt.Settle()
	w.checkCallers("after-timeout")
	// stragglers
	lates := []string{"late1", "late2"}
	for e := 0; e < vrt.Param("late", 1); e++ {
		w.event(lates[e], true)
	}
	vrt.Assert(w.finished == w.started, "c14/message-processing-never-blocks")
	// a fresh request still works
	fresh := &c14Caller{tag: "fresh"}
	go func() {
		fresh.resp, fresh.err = sgetty.GetGettyRemotingClient().SendSyncRequest(message.GlobalBeginRequest{TransactionName: "fresh"})
		fresh.done = true
	}()
	vrt.Settle()
	id, ok := w.s.requestID("fresh")
	vrt.Assert(ok, "c14/fresh-request-written")
	if ok {
		w.deliver(c14Reply(id, "fresh"))
		r, isResp := fresh.resp.(message.GlobalBeginResponse)
		vrt.Assert(fresh.done && fresh.err == nil && isResp && r.Xid == "xid-for-fresh", "c14/fresh-request-completes")
	}
	vrt.Assert(w.finished == w.started, "c14/message-processing-never-blocks/end")
	// heart beats and one-way messages wait for their (possibly absent) answer at most the timeout
	time.Sleep(21 * time.Second / c14Scale)
	vrt.Settle()
	vrt.Assert(sgetty.VerifPendingFutures() == 0, "c14/no-bookkeeping-left")
}
