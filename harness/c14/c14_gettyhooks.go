package getty

// Overlay-only accessors for the C14 / C19 harnesses (never part of /repo).

import (
	getty "github.com/apache/dubbo-getty"

	"seata.apache.org/seata-go/pkg/remoting/config"
)

// VerifInit gives the package the state getty_init.go would create, without
// dialling anybody.
func VerifInit(loadBalance string) {
	config.InitConfig(&config.SeataConfig{ApplicationID: "app", TxServiceGroup: "group", LoadBalanceType: loadBalance})
	if sessionManager == nil {
		sessionManager = &SessionManager{gettyConf: &config.Config{}}
	}
}

func VerifRegisterSession(s getty.Session) { sessionManager.registerSession(s) }

func VerifSessionCount() int {
	n := 0
	sessionManager.allSessions.Range(func(k, v interface{}) bool { n++; return true })
	return n
}

// VerifPendingFutures is the size of the request-id -> future table.
func VerifPendingFutures() int {
	n := 0
	GetGettyRemotingClient().gettyRemoting.futures.Range(func(k, v interface{}) bool { n++; return true })
	return n
}

func VerifPendingFutureIDs() []int32 {
	var ids []int32
	GetGettyRemotingClient().gettyRemoting.futures.Range(func(k, v interface{}) bool { ids = append(ids, k.(int32)); return true })
	return ids
}

func VerifSetNextID(v uint32) { GetGettyRemotingClient().idGenerator.Store(v) }
