package client

// C15 — every coordinator phase-two request gets one correctly addressed,
// truthful reply. Real gettyClientHandler.OnMessage dispatch, real
// rmBranchCommitProcessor / rmBranchRollbackProcessor, real ResourceManagerCache.

import (
	"context"
	"errors"
	"time"

	gettyapi "github.com/apache/dubbo-getty"

	"seata.apache.org/seata-go/pkg/protocol/branch"
	"seata.apache.org/seata-go/pkg/protocol/message"
	"seata.apache.org/seata-go/pkg/remoting/getty"
	"seata.apache.org/seata-go/pkg/rm"
	"seata.apache.org/seata-go/pkg/zzverif/vrt"
)

type c15Call struct {
	manager  branch.BranchType
	rollback bool
	res      rm.BranchResource
}

type c15Manager struct {
	rm.ResourceManager
	typ   branch.BranchType
	calls *[]c15Call
	// outcome of the next call
	status branch.BranchStatus
	fail   bool
}

func (m *c15Manager) GetBranchType() branch.BranchType { return m.typ }
func (m *c15Manager) BranchCommit(ctx context.Context, r rm.BranchResource) (branch.BranchStatus, error) {
	*m.calls = append(*m.calls, c15Call{m.typ, false, r})
	if m.fail {
		return m.status, errors.New("manager failed")
	}
	return m.status, nil
}
func (m *c15Manager) BranchRollback(ctx context.Context, r rm.BranchResource) (branch.BranchStatus, error) {
	*m.calls = append(*m.calls, c15Call{m.typ, true, r})
	if m.fail {
		return m.status, errors.New("manager failed")
	}
	return m.status, nil
}

type c15Reply struct {
	id  int32
	msg interface{}
}

type c15Req struct {
	id       int32
	xid      string
	branchID int64
	typ      branch.BranchType
	resource string
	data     []byte
	rollback bool
	status   branch.BranchStatus
	fail     bool
}

func c15MakeReq(tag string) c15Req {
	types := []branch.BranchType{branch.BranchTypeAT, branch.BranchTypeTCC, branch.BranchTypeXA}
	return c15Req{
		id:       vrt.Int32(tag + ".id"),
		xid:      vrt.String(tag+".xid", 2),
		branchID: vrt.Int64(tag + ".branch"),
		typ:      types[vrt.Choice(tag+".type", 3)],
		resource: vrt.String(tag+".resource", 1),
		data:     vrt.Bytes(tag+".data", 1),
		rollback: vrt.Choice(tag+".phase", 2) == 1,
		status:   branch.BranchStatus(vrt.Int8(tag + ".status")),
		fail:     vrt.Choice(tag+".managerFails", 2) == 1,
	}
}

func (r c15Req) message() message.RpcMessage {
	end := message.AbstractBranchEndRequest{Xid: r.xid, BranchId: r.branchID, BranchType: r.typ, ResourceId: r.resource, ApplicationData: r.data}
	m := message.RpcMessage{ID: r.id, Type: message.GettyRequestTypeRequestSync}
	if r.rollback {
		m.Body = message.BranchRollbackRequest{AbstractBranchEndRequest: end}
	} else {
		m.Body = message.BranchCommitRequest{AbstractBranchEndRequest: end}
	}
	return m
}

func VerifC15Process() {
	nreq := vrt.Param("requests", 2)
	RegisterProcessor()
	var calls []c15Call
	managers := map[branch.BranchType]*c15Manager{}
	for _, t := range []branch.BranchType{branch.BranchTypeAT, branch.BranchTypeTCC, branch.BranchTypeXA} {
		m := &c15Manager{typ: t, calls: &calls}
		managers[t] = m
		rm.GetRmCacheInstance().RegisterResourceManager(m)
	}
	var replies []c15Reply
	vrt.Redirect((*getty.GettyRemotingClient).SendAsyncResponse, func(_ *getty.GettyRemotingClient, id int32, msg interface{}) error {
		replies = append(replies, c15Reply{id, msg})
		return nil
	})
	tags := []string{"r0", "r1", "r2"}
	for k := 0; k < nreq; k++ {
		r := c15MakeReq(tags[k])
		mg := managers[r.typ]
		mg.status, mg.fail = r.status, r.fail
		nc, nr := len(calls), len(replies)
		panicked := false
		func() {
			defer func() {
				if recover() != nil {
					panicked = true
				}
			}()
			getty.GetGettyClientHandlerInstance().OnMessage(nil, r.message())
		}()
		vrt.Assert(!panicked, "c15/no-panic")
		// routed to the manager of the request's branch type, once, with the request's data
		vrt.Assert(len(calls) == nc+1, "c15/manager-invoked-once")
		if len(calls) != nc+1 {
			return
		}
		c := calls[nc]
		vrt.Assert(c.manager == r.typ, "c15/routed-by-branch-type")
		vrt.Assert(c.rollback == r.rollback, "c15/phase-matches-request")
		vrt.Assert(c.res.Xid == r.xid && c.res.BranchId == r.branchID && c.res.ResourceId == r.resource && string(c.res.ApplicationData) == string(r.data), "c15/manager-gets-request-data")
		if r.fail {
			vrt.Reach("c15/manager-failed")
			// no reply, or a reply that does not claim success
			for _, rp := range replies[nr:] {
				var end message.AbstractBranchEndResponse
				switch m := rp.msg.(type) {
				case message.BranchCommitResponse:
					end = m.AbstractBranchEndResponse
				case message.BranchRollbackResponse:
					end = m.AbstractBranchEndResponse
				default:
					continue
				}
				vrt.Assert(end.ResultCode != message.ResultCodeSuccess, "c15/failure-never-reported-with-success-code")
				vrt.Assert(end.BranchStatus != branch.BranchStatusPhasetwoCommitted && end.BranchStatus != branch.BranchStatusPhasetwoRollbacked,
					"c15/failure-never-reported-with-success-status")
			}
			continue
		}
		vrt.Reach("c15/manager-ok")
		vrt.Assert(len(replies) == nr+1, "c15/exactly-one-reply")
		if len(replies) != nr+1 {
			return
		}
		rp := replies[nr]
		vrt.Assert(rp.id == r.id, "c15/reply-carries-request-id")
		var end message.AbstractBranchEndResponse
		if r.rollback {
			m, ok := rp.msg.(message.BranchRollbackResponse)
			vrt.Assert(ok, "c15/reply-type-matches-phase")
			end = m.AbstractBranchEndResponse
		} else {
			m, ok := rp.msg.(message.BranchCommitResponse)
			vrt.Assert(ok, "c15/reply-type-matches-phase")
			end = m.AbstractBranchEndResponse
		}
		vrt.Assert(end.Xid == r.xid && end.BranchId == r.branchID, "c15/reply-names-request-branch")
		vrt.Assert(end.BranchStatus == r.status, "c15/reply-carries-manager-status")
		vrt.Assert(end.ResultCode == message.ResultCodeSuccess, "c15/reply-success-code")
	}
}

// VerifC15Stream: a request the manager finishes is answered whatever came
// before it on the connection: n requests the manager fails for (alternating
// phases, any branch type), then one it finishes.
func VerifC15Stream() {
	n := vrt.Param("failures", 10)
	RegisterProcessor()
	var calls []c15Call
	types := []branch.BranchType{branch.BranchTypeAT, branch.BranchTypeTCC, branch.BranchTypeXA}
	typ := types[vrt.Choice("type", 3)]
	m := &c15Manager{typ: typ, calls: &calls}
	rm.GetRmCacheInstance().RegisterResourceManager(m)
	var replies []c15Reply
	vrt.Redirect((*getty.GettyRemotingClient).SendAsyncResponse, func(_ *getty.GettyRemotingClient, id int32, msg interface{}) error {
		replies = append(replies, c15Reply{id, msg})
		return nil
	})
	firstPhase := vrt.Choice("first.phase", 2)
	for k := 0; k < n; k++ {
		r := c15Req{id: int32(100 + k), xid: "x", branchID: int64(k + 1), typ: typ, resource: "r", rollback: (k+firstPhase)%2 == 1,
			status: branch.BranchStatusPhasetwoCommitFailedRetryable, fail: true}
		m.status, m.fail = r.status, r.fail
		go getty.GetGettyClientHandlerInstance().OnMessage(nil, r.message())
		vrt.Settle()
	}
	vrt.Assert(len(calls) == n, "c15/stream/every-failing-request-reached-its-manager")
	last := c15Req{id: vrt.Int32("last.id"), xid: "y", branchID: vrt.Int64("last.branch"), typ: typ, resource: "r",
		rollback: vrt.Choice("last.phase", 2) == 1, status: branch.BranchStatusPhasetwoCommitted}
	if last.rollback {
		last.status = branch.BranchStatusPhasetwoRollbacked
	}
	m.status, m.fail = last.status, false
	nr := len(replies)
	go getty.GetGettyClientHandlerInstance().OnMessage(nil, last.message())
	vrt.Settle()
	vrt.Reach("c15/stream/done")
	vrt.Assert(len(calls) == n+1, "c15/stream/request-after-failures-reaches-its-manager")
	vrt.Assert(len(replies) == nr+1, "c15/stream/request-after-failures-is-answered")
	if len(replies) == nr+1 {
		vrt.Assert(replies[nr].id == last.id, "c15/stream/reply-carries-request-id")
	}
}

// c15Session records what the client really puts on the wire.
type c15Session struct {
	gettyapi.Session
	written []message.RpcMessage
	attrs   map[interface{}]interface{}
}

func (s *c15Session) IsClosed() bool                         { return false }
func (s *c15Session) RemoteAddr() string                     { return "10.0.0.1:8091" }
func (s *c15Session) Stat() string                           { return "c15-session" }
func (s *c15Session) GetAttribute(k interface{}) interface{} { return s.attrs[k] }
func (s *c15Session) SetAttribute(k, v interface{})          { s.attrs[k] = v }
func (s *c15Session) WritePkg(pkg interface{}, timeout time.Duration) (int, int, error) {
	if m, ok := pkg.(message.RpcMessage); ok {
		s.written = append(s.written, m)
	}
	return 0, 0, nil
}

// VerifC15Wire: the reply as it goes out: the real SendAsyncResponse and the real
// remoting layer write to a recording session; the request's message id is any
// 32-bit value the coordinator may have chosen (0 and negative ones included).
func VerifC15Wire() {
	getty.VerifInit("RandomLoadBalance")
	RegisterProcessor()
	var calls []c15Call
	types := []branch.BranchType{branch.BranchTypeAT, branch.BranchTypeTCC, branch.BranchTypeXA}
	typ := types[vrt.Choice("type", 3)]
	m := &c15Manager{typ: typ, calls: &calls}
	rm.GetRmCacheInstance().RegisterResourceManager(m)
	s := &c15Session{attrs: map[interface{}]interface{}{}}
	getty.VerifRegisterSession(s)
	nreq := vrt.Param("wirerequests", 2)
	for k := 0; k < nreq; k++ {
		tag := []string{"w0", "w1", "w2"}[k]
		r := c15Req{id: vrt.Int32(tag + ".id"), xid: vrt.String(tag+".xid", 2), branchID: vrt.Int64(tag + ".branch"), typ: typ, resource: "r",
			rollback: vrt.Choice(tag+".phase", 2) == 1, status: branch.BranchStatusPhasetwoCommitted}
		if r.rollback {
			r.status = branch.BranchStatusPhasetwoRollbacked
		}
		m.status, m.fail = r.status, false
		before := len(s.written)
		go getty.GetGettyClientHandlerInstance().OnMessage(s, r.message())
		vrt.Settle()
		vrt.Reach("c15/wire/answered")
		vrt.Assert(len(s.written) == before+1, "c15/wire/exactly-one-frame-written")
		if len(s.written) != before+1 {
			return
		}
		out := s.written[before]
		vrt.Assert(out.ID == r.id, "c15/wire/frame-carries-request-id")
		vrt.Assert(out.Type == message.GettyRequestTypeResponse, "c15/wire/frame-is-a-response")
		var end message.AbstractBranchEndResponse
		if r.rollback {
			b, ok := out.Body.(message.BranchRollbackResponse)
			vrt.Assert(ok, "c15/wire/body-type-matches-phase")
			end = b.AbstractBranchEndResponse
		} else {
			b, ok := out.Body.(message.BranchCommitResponse)
			vrt.Assert(ok, "c15/wire/body-type-matches-phase")
			end = b.AbstractBranchEndResponse
		}
		vrt.Assert(end.Xid == r.xid && end.BranchId == r.branchID && end.BranchStatus == r.status, "c15/wire/body-names-request-branch-and-status")
		vrt.Assert(getty.VerifPendingFutures() == 0, "c15/wire/reply-leaves-no-bookkeeping")
	}
}

// c15SlowManager: the call for one branch stays inside the manager until the gate
// opens; every branch has its own outcome.
type c15SlowManager struct {
	rm.ResourceManager
	typ    branch.BranchType
	slow   int64
	gate   chan struct{}
	status map[int64]branch.BranchStatus
	fails  map[int64]bool
	calls  []int64
}

func (m *c15SlowManager) GetBranchType() branch.BranchType { return m.typ }
func (m *c15SlowManager) do(r rm.BranchResource) (branch.BranchStatus, error) {
	m.calls = append(m.calls, r.BranchId)
	if r.BranchId == m.slow {
		<-m.gate
	}
	if m.fails[r.BranchId] {
		return m.status[r.BranchId], errors.New("manager failed")
	}
	return m.status[r.BranchId], nil
}
func (m *c15SlowManager) BranchCommit(ctx context.Context, r rm.BranchResource) (branch.BranchStatus, error) {
	return m.do(r)
}
func (m *c15SlowManager) BranchRollback(ctx context.Context, r rm.BranchResource) (branch.BranchStatus, error) {
	return m.do(r)
}

// VerifC15Overlap: two phase-two requests overlap in time: the first is still inside
// its resource manager when the second (same or another global transaction, same or
// another phase, another branch) arrives. Each is routed to the manager once and
// answered with its own branch's outcome, the second without waiting for the first.
func VerifC15Overlap() {
	RegisterProcessor()
	types := []branch.BranchType{branch.BranchTypeAT, branch.BranchTypeTCC, branch.BranchTypeXA}
	typ := types[vrt.Choice("type", 3)]
	m := &c15SlowManager{typ: typ, slow: 1, gate: make(chan struct{}), status: map[int64]branch.BranchStatus{}, fails: map[int64]bool{}}
	rm.GetRmCacheInstance().RegisterResourceManager(m)
	var replies []c15Reply
	vrt.Redirect((*getty.GettyRemotingClient).SendAsyncResponse, func(_ *getty.GettyRemotingClient, id int32, msg interface{}) error {
		replies = append(replies, c15Reply{id, msg})
		return nil
	})
	sameXid := vrt.Bool("same.global.transaction")
	rb1, rb2 := vrt.Choice("first.phase", 2) == 1, vrt.Choice("second.phase", 2) == 1
	done := func(rb bool) branch.BranchStatus {
		if rb {
			return branch.BranchStatusPhasetwoRollbacked
		}
		return branch.BranchStatusPhasetwoCommitted
	}
	retry := func(rb bool) branch.BranchStatus {
		if rb {
			return branch.BranchStatusPhasetwoRollbackFailedRetryable
		}
		return branch.BranchStatusPhasetwoCommitFailedRetryable
	}
	// outcomes: the first finishes, the second is to be retried - or the other way round
	if vrt.Bool("first.is.to.be.retried") {
		m.status[1], m.status[2] = retry(rb1), done(rb2)
	} else {
		m.status[1], m.status[2] = done(rb1), retry(rb2)
	}
	x2 := "x"
	if !sameXid {
		x2 = "y"
	}
	r1 := c15Req{id: 101, xid: "x", branchID: 1, typ: typ, resource: "r", rollback: rb1}
	r2 := c15Req{id: 102, xid: x2, branchID: 2, typ: typ, resource: "r", rollback: rb2}
	go getty.GetGettyClientHandlerInstance().OnMessage(nil, r1.message())
	vrt.Settle()
	vrt.Assert(len(m.calls) == 1 && len(replies) == 0, "c15/overlap/first-request-is-inside-its-manager")
	go getty.GetGettyClientHandlerInstance().OnMessage(nil, r2.message())
	vrt.Settle()
	status := func(rp c15Reply) (branch.BranchStatus, int64, bool) {
		switch b := rp.msg.(type) {
		case message.BranchCommitResponse:
			return b.BranchStatus, b.BranchId, true
		case message.BranchRollbackResponse:
			return b.BranchStatus, b.BranchId, true
		}
		return 0, 0, false
	}
	vrt.Reach("c15/overlap/second-delivered")
	vrt.Assert(len(m.calls) == 2 && m.calls[1] == 2, "c15/overlap/second-request-reaches-its-manager")
	vrt.Assert(len(replies) == 1 && replies[0].id == 102, "c15/overlap/second-request-answered-without-waiting")
	if len(replies) == 1 {
		st, br, ok := status(replies[0])
		vrt.Assert(ok && br == 2 && st == m.status[2], "c15/overlap/second-reply-carries-its-own-outcome")
	}
	close(m.gate)
	vrt.Settle()
	vrt.Assert(len(m.calls) == 2, "c15/overlap/each-request-routed-once")
	vrt.Assert(len(replies) == 2, "c15/overlap/both-answered")
	if len(replies) == 2 {
		st, br, ok := status(replies[1])
		vrt.Assert(replies[1].id == 101 && ok && br == 1 && st == m.status[1], "c15/overlap/first-reply-carries-its-own-outcome")
	}
}
