package sql

// C16 — outside a global transaction the AT and XA proxy drivers are
// transparent: the same calls reach the underlying driver with the same
// statement text and arguments, its results and errors come back unchanged,
// and the coordinator hears nothing. Real ATConn/XAConn/Conn/Stmt/Tx/ATTx/
// XATx, real exec.BuildExecutor + ATExecutor + the real SQL parser.

import (
	"context"
	"database/sql/driver"
	"errors"
	"io"
	"sync"
	"time"

	_ "github.com/arana-db/parser/test_driver"
	"github.com/bluele/gcache"

	"seata.apache.org/seata-go/pkg/datasource/sql/datasource"
	"seata.apache.org/seata-go/pkg/datasource/sql/exec/at"
	"seata.apache.org/seata-go/pkg/datasource/sql/types"
	"seata.apache.org/seata-go/pkg/datasource/sql/undo"
	undomysql "seata.apache.org/seata-go/pkg/datasource/sql/undo/mysql"
	"seata.apache.org/seata-go/pkg/protocol/branch"
	"seata.apache.org/seata-go/pkg/protocol/message"
	"seata.apache.org/seata-go/pkg/remoting/getty"
	"seata.apache.org/seata-go/pkg/rm"
	"seata.apache.org/seata-go/pkg/tm"
	"seata.apache.org/seata-go/pkg/zzverif/vrt"
)

type c16Call struct {
	op    string
	query string
	args  []driver.NamedValue
}

type c16World struct {
	journal     []c16Call
	coordinator int
	failed      bool
	lastResult  c16Result
	lastRowTag  int64
	beginOpts   []driver.TxOptions
	noFail      bool // the driver does not fail (the part of a run that only sets the stage)
	lastFailed  bool // the most recent driver call failed
	maySkip     bool // the driver may answer driver.ErrSkip on the connection-level fast path (go-sql-driver/mysql does for a statement with arguments)
	skipped     bool
}

// skips decides (symbolically) whether the driver declines the connection-level fast path.
func (w *c16World) skips() bool {
	if w.maySkip && !w.noFail && vrt.Bool("driver.skips") {
		w.skipped = true
		return true
	}
	return false
}

func (w *c16World) rec(op, query string, args []driver.NamedValue) {
	w.journal = append(w.journal, c16Call{op, query, args})
}

// fails decides (symbolically) whether the underlying driver call fails.
func (w *c16World) fails() bool {
	w.lastFailed = false
	if w.noFail {
		return false
	}
	if vrt.Bool("driver.fails") {
		w.failed, w.lastFailed = true, true
		return true
	}
	return false
}

var c16Err = errors.New("underlying driver error")

type c16Result struct{ affected, lastID int64 }

func (r c16Result) LastInsertId() (int64, error) { return r.lastID, nil }
func (r c16Result) RowsAffected() (int64, error) { return r.affected, nil }

type c16Rows struct {
	tag  int64
	done bool
}

func (r *c16Rows) Columns() []string { return []string{"c"} }
func (r *c16Rows) Close() error      { return nil }
func (r *c16Rows) Next(dest []driver.Value) error {
	if r.done {
		return io.EOF
	}
	r.done = true
	dest[0] = r.tag
	return nil
}

type c16Conn struct{ w *c16World }

func (c *c16Conn) result() driver.Result {
	c.w.lastResult = c16Result{affected: vrt.Int64("driver.affected"), lastID: vrt.Int64("driver.lastInsertId")}
	return c.w.lastResult
}

func (c *c16Conn) rows() driver.Rows {
	c.w.lastRowTag = vrt.Int64("driver.rowtag")
	return &c16Rows{tag: c.w.lastRowTag}
}
func (c *c16Conn) Prepare(q string) (driver.Stmt, error) {
	c.w.rec("Prepare", q, nil)
	if c.w.fails() {
		return nil, c16Err
	}
	return &c16Stmt{w: c.w, c: c, q: q}, nil
}
func (c *c16Conn) PrepareContext(ctx context.Context, q string) (driver.Stmt, error) {
	return c.Prepare(q)
}
func (c *c16Conn) Close() error { c.w.rec("Close", "", nil); return nil }
func (c *c16Conn) Begin() (driver.Tx, error) {
	c.w.rec("Begin", "", nil)
	if c.w.fails() {
		return nil, c16Err
	}
	return &c16Tx{c.w}, nil
}
func (c *c16Conn) BeginTx(ctx context.Context, opts driver.TxOptions) (driver.Tx, error) {
	c.w.beginOpts = append(c.w.beginOpts, opts)
	return c.Begin()
}
func (c *c16Conn) ExecContext(ctx context.Context, q string, args []driver.NamedValue) (driver.Result, error) {
	c.w.rec("Exec", q, args)
	if c.w.skips() {
		return nil, driver.ErrSkip
	}
	if c.w.fails() {
		return nil, c16Err
	}
	return c.result(), nil
}
func (c *c16Conn) QueryContext(ctx context.Context, q string, args []driver.NamedValue) (driver.Rows, error) {
	c.w.rec("Query", q, args)
	if c.w.skips() {
		return nil, driver.ErrSkip
	}
	if c.w.fails() {
		return nil, c16Err
	}
	return c.rows(), nil
}
func (c *c16Conn) ResetSession(ctx context.Context) error {
	c.w.rec("ResetSession", "", nil)
	return nil
}

type c16Tx struct{ w *c16World }

func (t *c16Tx) Commit() error {
	t.w.rec("Commit", "", nil)
	if t.w.fails() {
		return c16Err
	}
	return nil
}
func (t *c16Tx) Rollback() error {
	t.w.rec("Rollback", "", nil)
	if t.w.fails() {
		return c16Err
	}
	return nil
}

type c16Stmt struct {
	w *c16World
	c *c16Conn
	q string
}

func (s *c16Stmt) Close() error  { s.w.rec("StmtClose", s.q, nil); return nil }
func (s *c16Stmt) NumInput() int { return -1 }
func (s *c16Stmt) Exec(args []driver.Value) (driver.Result, error) {
	return nil, errors.New("c16: deprecated Exec not expected")
}
func (s *c16Stmt) Query(args []driver.Value) (driver.Rows, error) {
	return nil, errors.New("c16: deprecated Query not expected")
}
func (s *c16Stmt) ExecContext(ctx context.Context, args []driver.NamedValue) (driver.Result, error) {
	s.w.rec("StmtExec", s.q, args)
	if s.w.fails() {
		return nil, c16Err
	}
	return s.c.result(), nil
}
func (s *c16Stmt) QueryContext(ctx context.Context, args []driver.NamedValue) (driver.Rows, error) {
	s.w.rec("StmtQuery", s.q, args)
	if s.w.fails() {
		return nil, c16Err
	}
	return s.c.rows(), nil
}

var c16Queries = []string{
	"SELECT * FROM t WHERE id = ?",
	"UPDATE t SET a = ? WHERE id = ?",
	"INSERT INTO t (id, a) VALUES (?, ?)",
	"DELETE FROM t WHERE id = ?",
	"SELECT * FROM t WHERE id = ? FOR UPDATE",
	"INSERT INTO t (id, a) VALUES (?, ?) ON DUPLICATE KEY UPDATE a = ?",
	"CREATE TABLE x (id INT PRIMARY KEY)",
	"UPDATE t SET a = 1 WHERE id = 1; UPDATE t SET a = 2 WHERE id = 2",
}

func c16SameArgs(a, b []driver.NamedValue) bool {
	if len(a) != len(b) {
		return false
	}
	for i := range a {
		if a[i].Ordinal != b[i].Ordinal || a[i].Name != b[i].Name || a[i].Value != b[i].Value {
			return false
		}
	}
	return true
}

func c16Setup() (*c16World, *c16Conn) {
	at.Init()
	undo.RegisterUndoLogManager(undomysql.NewUndoLogManager())
	w := &c16World{}
	vrt.Redirect((*getty.GettyRemotingClient).SendSyncRequest, func(_ *getty.GettyRemotingClient, msg interface{}) (interface{}, error) {
		w.coordinator++
		return nil, errors.New("no coordinator traffic expected")
	})
	return w, &c16Conn{w: w}
}

func c16Proxy(target *c16Conn) (execer driver.ExecerContext, queryer driver.QueryerContext, preparer driver.ConnPrepareContext, beginner driver.ConnBeginTx, name string) {
	res := &DBResource{resourceID: "res", dbType: types.DBTypeMySQL}
	base := &Conn{res: res, txCtx: types.NewTxCtx(), targetConn: target, autoCommit: true, dbType: types.DBTypeMySQL, dbName: "db"}
	if vrt.Choice("proxy", 2) == 0 {
		c := &ATConn{Conn: base}
		return c, c, c, c, "at"
	}
	c := &XAConn{Conn: base}
	return c, c, c, c, "xa"
}

// VerifC16Statement: one statement through each entry point.
func VerifC16Statement() {
	w, target := c16Setup()
	w.maySkip = true
	execer, queryer, preparer, _, name := c16Proxy(target)
	q := c16Queries[vrt.Choice("query", len(c16Queries))]
	args := []driver.NamedValue{{Ordinal: 1, Value: vrt.Int64("arg1")}, {Ordinal: 2, Value: vrt.String("arg2", 2)}}
	ctx := context.Background() // no global transaction
	via := vrt.Choice("via", 4)
	// a statement may have been prepared earlier, while a global transaction was going on
	// (a statement cache filled lazily), and be executed now, outside of any
	prepCtx := ctx
	if via >= 2 && vrt.Bool("prepared.inside.a.global.transaction") {
		prepCtx = tm.InitSeataContext(context.Background())
		tm.SetXID(prepCtx, "10.0.0.1:8091:99")
		vrt.Reach("stmt/prepared-inside-gtx")
	}
	vrt.Reach("stmt/" + name)
	var wantOps []string
	var res driver.Result
	var rows driver.Rows
	var err error
	panicked := false
	func() {
		defer func() {
			if recover() != nil {
				panicked = true
			}
		}()
		switch via {
		case 0:
			wantOps = []string{"Exec"}
			res, err = execer.ExecContext(ctx, q, args)
		case 1:
			wantOps = []string{"Query"}
			rows, err = queryer.QueryContext(ctx, q, args)
		case 2:
			wantOps = []string{"Prepare", "StmtExec", "StmtClose"}
			var st driver.Stmt
			st, err = preparer.PrepareContext(prepCtx, q)
			if err == nil {
				res, err = st.(driver.StmtExecContext).ExecContext(ctx, args)
				st.Close()
			} else {
				wantOps = wantOps[:1]
			}
		default:
			wantOps = []string{"Prepare", "StmtQuery", "StmtClose"}
			var st driver.Stmt
			st, err = preparer.PrepareContext(prepCtx, q)
			if err == nil {
				rows, err = st.(driver.StmtQueryContext).QueryContext(ctx, args)
				st.Close()
			} else {
				wantOps = wantOps[:1]
			}
		}
	}()
	vrt.Assert(!panicked, "stmt/no-panic")
	if panicked {
		return
	}
	vrt.Assert(w.coordinator == 0, "stmt/no-coordinator-traffic")
	vrt.Assert(len(w.journal) == len(wantOps), "stmt/same-number-of-driver-calls")
	for i := 0; i < len(wantOps) && i < len(w.journal); i++ {
		c := w.journal[i]
		vrt.Assert(c.op == wantOps[i], "stmt/same-driver-calls")
		if c.op != "StmtClose" {
			vrt.Assert(c.query == q, "stmt/same-statement-text")
		}
		if c.op == "Exec" || c.op == "Query" || c.op == "StmtExec" || c.op == "StmtQuery" {
			vrt.Assert(c16SameArgs(c.args, args), "stmt/same-arguments")
		}
	}
	// outcome: exactly what the underlying driver answered
	if w.skipped {
		// database/sql recognises driver.ErrSkip by identity and only then falls back to Prepare + Stmt
		vrt.Reach("stmt/driver-skips-the-fast-path")
		vrt.Assert(err == driver.ErrSkip, "stmt/skip-answer-reaches-database-sql-unchanged")
		return
	}
	vrt.Assert((err != nil) == w.failed, "stmt/fails-iff-the-driver-failed")
	if err != nil {
		vrt.Assert(errors.Is(err, c16Err), "stmt/error-is-the-drivers-error")
		return
	}
	if via == 0 || via == 2 {
		vrt.Assert(res != nil, "stmt/result-returned")
		if res != nil {
			a, _ := res.RowsAffected()
			l, _ := res.LastInsertId()
			vrt.Assert(a == w.lastResult.affected && l == w.lastResult.lastID, "stmt/result-is-the-drivers-result")
		}
	} else {
		vrt.Assert(rows != nil, "stmt/rows-returned")
		if rows != nil {
			dest := make([]driver.Value, 1)
			vrt.Assert(rows.Next(dest) == nil && dest[0] == driver.Value(w.lastRowTag), "stmt/rows-are-the-drivers-rows")
		}
	}
}

// VerifC16Tx: an explicit local transaction (begin, one statement, commit or
// rollback) outside a global transaction.
func VerifC16Tx() {
	w, target := c16Setup()
	execer, _, _, beginner, name := c16Proxy(target)
	q := c16Queries[1+vrt.Choice("query", 3)]
	args := []driver.NamedValue{{Ordinal: 1, Value: vrt.Int64("arg1")}, {Ordinal: 2, Value: vrt.Int64("arg2")}}
	ctx := context.Background()
	commit := vrt.Bool("commit")
	// the isolation level and read-only flag the application asked for
	opts := driver.TxOptions{Isolation: driver.IsolationLevel(vrt.Uint8("tx.isolation") % 8), ReadOnly: vrt.Bool("tx.readonly")}
	vrt.Reach("tx/" + name)
	var err error
	panicked := false
	var want []string
	func() {
		defer func() {
			if recover() != nil {
				panicked = true
			}
		}()
		want = []string{"Begin"}
		var tx driver.Tx
		tx, err = beginner.BeginTx(ctx, opts)
		if err != nil {
			return
		}
		want = append(want, "Exec")
		_, eerr := execer.ExecContext(ctx, q, args)
		_ = eerr
		if commit {
			want = append(want, "Commit")
			err = tx.Commit()
		} else {
			want = append(want, "Rollback")
			err = tx.Rollback()
		}
	}()
	vrt.Assert(!panicked, "tx/no-panic")
	if panicked {
		return
	}
	vrt.Assert(w.coordinator == 0, "tx/no-coordinator-traffic")
	vrt.Assert(len(w.beginOpts) == 1 && w.beginOpts[0] == opts, "tx/begin-options-reach-the-driver")
	vrt.Assert(len(w.journal) == len(want), "tx/same-number-of-driver-calls")
	for i := 0; i < len(want) && i < len(w.journal); i++ {
		vrt.Assert(w.journal[i].op == want[i], "tx/same-driver-calls")
	}
	if err != nil {
		vrt.Assert(errors.Is(err, c16Err), "tx/error-is-the-drivers-error")
	}
	if len(w.journal) == len(want) && len(want) == 3 {
		// Begin, Exec and then Commit / Rollback reached the driver: what the application
		// hears from Commit / Rollback is what the driver answered
		vrt.Assert((err != nil) == w.lastFailed, "tx/commit-or-rollback-fails-iff-the-driver-failed")
	}
}

type c16Connector struct{ c *c16Conn }

func (k c16Connector) Connect(context.Context) (driver.Conn, error) { return k.c, nil }
func (k c16Connector) Driver() driver.Driver                        { return nil }

// VerifC16AfterGlobal: a pooled connection of the XA proxy that has just served a
// global transaction (one autocommit statement, or an explicit local transaction,
// with the branch registered and prepared) goes back to the pool - database/sql
// resets its session - and is then used outside of any global transaction: an
// explicit local transaction or a single statement, the driver failing or not.
// From there on the driver sees what it would see without the proxy.
func VerifC16AfterGlobal() {
	w, target := c16Setup()
	vrt.Redirect((*getty.GettyRemotingClient).SendSyncRequest, func(_ *getty.GettyRemotingClient, msg interface{}) (interface{}, error) {
		w.coordinator++
		switch msg.(type) {
		case message.BranchRegisterRequest:
			return message.BranchRegisterResponse{AbstractTransactionResponse: message.AbstractTransactionResponse{
				AbstractResultMessage: message.AbstractResultMessage{ResultCode: message.ResultCodeSuccess}}, BranchId: 7}, nil
		case message.BranchReportRequest:
			return message.BranchReportResponse{AbstractTransactionResponse: message.AbstractTransactionResponse{
				AbstractResultMessage: message.AbstractResultMessage{ResultCode: message.ResultCodeSuccess}}}, nil
		}
		return nil, errors.New("unexpected request")
	})
	branchStatusCache = gcache.New(16).LRU().Build()
	xaConnTimeout = time.Hour
	held := vrt.Bool("server.needs.the.connection.held")
	res := &DBResource{resourceID: "res", dbType: types.DBTypeMySQL, connector: c16Connector{target}, shouldBeHeld: held, branchType: branch.BranchTypeXA}
	mgr := &XAResourceManager{resourceCache: sync.Map{}, basic: datasource.NewBasicSourceManager(), rmRemoting: rm.GetRMRemotingInstance()}
	mgr.resourceCache.Store("res", res)
	rm.GetRmCacheInstance().RegisterResourceManager(mgr)
	c := &XAConn{Conn: &Conn{res: res, txCtx: types.NewTxCtx(), targetConn: target, autoCommit: true, dbType: types.DBTypeMySQL, dbName: "db"}}
	gctx := tm.InitSeataContext(context.Background())
	tm.SetXID(gctx, "10.0.0.1:8091:5")

	// ---- the global transaction's work on this connection
	w.noFail = true
	var gerr error
	gpanic := false
	explicit := vrt.Bool("global.work.in.an.explicit.transaction")
	func() {
		defer func() {
			if recover() != nil {
				gpanic = true
			}
		}()
		if !explicit {
			_, gerr = c.ExecContext(gctx, "UPDATE t SET a = 1 WHERE id = 1", nil)
			return
		}
		var tx driver.Tx
		tx, gerr = c.BeginTx(gctx, driver.TxOptions{})
		if gerr != nil {
			return
		}
		if _, gerr = c.ExecContext(gctx, "UPDATE t SET a = 1 WHERE id = 1", nil); gerr != nil {
			_ = tx.Rollback()
			return
		}
		gerr = tx.Commit()
	}()
	if gpanic || gerr != nil {
		return // C17's subject
	}
	// ---- back to the pool and out again
	if rerr := c.ResetSession(context.Background()); rerr != nil {
		return // database/sql discards the connection
	}
	w.noFail = false
	w.failed = false
	start, coord := len(w.journal), w.coordinator
	ctx := context.Background()
	q := "UPDATE t SET a = ? WHERE id = ?"
	args := []driver.NamedValue{{Ordinal: 1, Value: vrt.Int64("arg1")}, {Ordinal: 2, Value: vrt.Int64("arg2")}}
	local := vrt.Bool("local.work.in.an.explicit.transaction")
	commit := vrt.Bool("commit")
	var want []string
	var err error
	panicked := false
	func() {
		defer func() {
			if recover() != nil {
				panicked = true
			}
		}()
		if !local {
			want = []string{"Exec"}
			_, err = c.ExecContext(ctx, q, args)
			return
		}
		want = []string{"Begin"}
		var tx driver.Tx
		tx, err = c.BeginTx(ctx, driver.TxOptions{})
		if err != nil {
			return
		}
		want = append(want, "Exec")
		_, _ = c.ExecContext(ctx, q, args)
		if commit {
			want = append(want, "Commit")
			err = tx.Commit()
		} else {
			want = append(want, "Rollback")
			err = tx.Rollback()
		}
	}()
	vrt.Reach("after/done")
	vrt.Assert(!panicked, "after/no-panic")
	if panicked {
		return
	}
	got := w.journal[start:]
	vrt.Assert(w.coordinator == coord, "after/no-coordinator-traffic")
	vrt.Assert(len(got) == len(want), "after/same-number-of-driver-calls")
	for i := 0; i < len(want) && i < len(got); i++ {
		vrt.Assert(got[i].op == want[i], "after/same-driver-calls")
		if got[i].op == "Exec" {
			vrt.Assert(got[i].query == q && c16SameArgs(got[i].args, args), "after/same-statement-and-arguments")
		}
	}
	if err != nil {
		vrt.Assert(errors.Is(err, c16Err), "after/error-is-the-drivers-error")
	}
}
