// Package vrt is the harness runtime: under the symbolic engine every function
// here is intercepted by name; compiled natively it replays one recorded
// counterexample (environment VERIF_CEX = JSON file) against the real build.
package vrt

import (
	"encoding/json"
	"fmt"
	"math"
	"os"
	"reflect"
	"runtime"
	"sort"
	"strings"
	"sync"
	"testing"
	"time"

	"github.com/agiledragon/gomonkey/v2"
)

type cexFile struct {
	Entry     string            `json:"entry"`
	Label     string            `json:"label"`
	Inputs    map[string]uint64 `json:"inputs"`
	Predicted map[string]string `json:"predicted"`
	Params    map[string]int    `json:"params"`
	Kind      string            `json:"kind"`
}

var (
	mu      sync.Mutex
	cex     cexFile
	seq     = map[string]int{}
	curT    *testing.T
	patches *gomonkey.Patches
	failed  string
	obs     = map[string]string{}
)

// Symbolic reports whether the harness runs under the symbolic engine.
func Symbolic() bool { return false }

func name(n string) string {
	mu.Lock()
	defer mu.Unlock()
	seq[n]++
	if seq[n] > 1 {
		return fmt.Sprintf("%s#%d", n, seq[n])
	}
	return n
}

func in(n string) uint64 { return cex.Inputs[name(n)] }

func Bool(n string) bool       { return in(n) != 0 }
func Uint8(n string) uint8     { return uint8(in(n)) }
func Uint16(n string) uint16   { return uint16(in(n)) }
func Uint32(n string) uint32   { return uint32(in(n)) }
func Uint64(n string) uint64   { return in(n) }
func Int8(n string) int8       { return int8(in(n)) }
func Int16(n string) int16     { return int16(in(n)) }
func Int32(n string) int32     { return int32(in(n)) }
func Int64(n string) int64     { return int64(in(n)) }
func Int(n string) int         { return int(in(n)) }
func Float64(n string) float64 { return math.Float64frombits(in(n)) }
func Float32(n string) float32 { return math.Float32frombits(uint32(in(n))) }

// Bytes returns n symbolic bytes.
func Bytes(nm string, n int) []byte {
	base := name(nm)
	b := make([]byte, n)
	for i := range b {
		b[i] = byte(cex.Inputs[fmt.Sprintf("%s[%d]", base, i)])
	}
	return b
}

// String returns a string of n symbolic bytes.
func String(nm string, n int) string { return string(Bytes(nm, n)) }

// Choice is a structural choice in [0,k): the engine explores every value.
func Choice(n string, k int) int { return int(in(n)) }

// Param is a tier-dependent bound (engine: from the check's configuration;
// replay: recorded in the counterexample file).
func Param(n string, def int) int {
	if v, ok := cex.Params[n]; ok {
		return v
	}
	return def
}

type skip struct{}

// Assume restricts the explored inputs.
func Assume(c bool) {
	if !c {
		fmt.Println("VRT-ASSUME-FALSE")
		if curT != nil {
			curT.SkipNow()
		}
		panic(skip{})
	}
}

// Assert is a proof obligation.
func Assert(c bool, label string) {
	if !c {
		failed = label
		fmt.Printf("VRT-FAIL label=%s\n", label)
		if curT != nil {
			flushObs()
			curT.FailNow()
		}
		panic("assertion failed: " + label)
	}
}

// Reach marks a point that must be reachable (vacuity witness).
func Reach(label string) {}

// Observe records a value for comparison between the engine's prediction and
// the native run.
func Observe(label string, v interface{}) {
	obs[label] = render(v)
}

func render(v interface{}) string {
	switch x := v.(type) {
	case nil:
		return "nil"
	case bool:
		if x {
			return "true"
		}
		return "false"
	case string:
		return fmt.Sprintf("%x", []byte(x))
	case []byte:
		return fmt.Sprintf("%x", x)
	case float64:
		return fmt.Sprintf("%d", math.Float64bits(x))
	case float32:
		return fmt.Sprintf("%d", math.Float32bits(x))
	}
	rv := reflect.ValueOf(v)
	switch rv.Kind() {
	case reflect.Int, reflect.Int8, reflect.Int16, reflect.Int32, reflect.Int64:
		bits := rv.Type().Bits()
		u := uint64(rv.Int())
		if bits < 64 {
			u &= (1 << uint(bits)) - 1
		}
		return fmt.Sprintf("%d", u)
	case reflect.Uint, reflect.Uint8, reflect.Uint16, reflect.Uint32, reflect.Uint64, reflect.Uintptr:
		return fmt.Sprintf("%d", rv.Uint())
	case reflect.Bool:
		return render(rv.Bool())
	case reflect.String:
		return render(rv.String())
	case reflect.Slice:
		var sb strings.Builder
		sb.WriteString("[")
		for i := 0; i < rv.Len(); i++ {
			if i > 0 {
				sb.WriteString(" ")
			}
			sb.WriteString(render(rv.Index(i).Interface()))
		}
		sb.WriteString("]")
		return sb.String()
	}
	return "?"
}

// Redirect replaces function target by repl (same signature; for methods the
// receiver is the first parameter) for the rest of the harness run.
func Redirect(target, repl interface{}) {
	if patches == nil {
		patches = gomonkey.NewPatches()
	}
	patches.ApplyFunc(target, repl)
}

// MaxAlloc, Unwind, StepBudget set engine bounds; no-ops natively.
func MaxAlloc(n int)   {}
func Unwind(n int)     {}
func StepBudget(n int) {}

// Settle runs all other goroutines until they are blocked or done (engine);
// natively it yields for a short while.
func Settle() {
	for i := 0; i < 200; i++ {
		runtime.Gosched()
	}
	time.Sleep(3 * time.Millisecond)
	for i := 0; i < 200; i++ {
		runtime.Gosched()
	}
}

// SchedChoice turns scheduling decisions into explored choices (engine only).
func SchedChoice(on bool) {}

func flushObs() {
	keys := make([]string, 0, len(obs))
	for k := range obs {
		keys = append(keys, k)
	}
	sort.Strings(keys)
	for _, k := range keys {
		fmt.Printf("VRT-OBS %s=%s\n", k, obs[k])
	}
}

// Replay runs the entry named in VERIF_CEX. Used by the generated
// TestVerifReplay.
func Replay(t *testing.T, entries map[string]func()) {
	path := os.Getenv("VERIF_CEX")
	if path == "" {
		t.Skip("VERIF_CEX not set")
	}
	data, err := os.ReadFile(path)
	if err != nil {
		t.Fatalf("read cex: %v", err)
	}
	if err := json.Unmarshal(data, &cex); err != nil {
		t.Fatalf("parse cex: %v", err)
	}
	fn := entries[cex.Entry]
	if fn == nil {
		t.Fatalf("no entry %q", cex.Entry)
	}
	curT = t
	defer func() {
		if patches != nil {
			patches.Reset()
		}
	}()
	func() {
		defer func() {
			if r := recover(); r != nil {
				if _, ok := r.(skip); ok {
					return
				}
				buf := make([]byte, 4096)
				n := runtime.Stack(buf, false)
				fmt.Printf("VRT-PANIC %v\n%s\n", r, buf[:n])
				flushObs()
				t.Fatalf("panic escaped the harness: %v", r)
			}
		}()
		fn()
	}()
	flushObs()
	fmt.Println("VRT-DONE")
}
