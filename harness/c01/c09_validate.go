package sql

// C09 — branch rollback never overwrites a foreign write (data validation on).

import (
	"database/sql/driver"

	"seata.apache.org/seata-go/pkg/datasource/sql/types"
	"seata.apache.org/seata-go/pkg/datasource/sql/undo"
	"seata.apache.org/seata-go/pkg/protocol/branch"
	"seata.apache.org/seata-go/pkg/zzverif/vrt"
)

var uKindNames = []string{"update", "insert", "delete"}

// uCells: a row of the schema with the given (concrete) key and symbolic other cells.
func uCells(s uSchema, tag string, key int64) []driver.Value {
	c := make([]driver.Value, len(s.cols))
	for k, n := range s.cols {
		if s.isPK(k) {
			c[k] = key + int64(k) // distinct concrete key parts
		} else {
			switch s.kind(k) {
			case "varchar":
				if vrt.Bool(tag + "." + n + ".null") {
					c[k] = nil
				} else if vrt.Param("symtext", 1) == 1 {
					str := vrt.String(tag+"."+n, 1)
					vrt.Assume(str[0]-0x20 < 0x5f) // printable ASCII
					c[k] = str
				} else {
					c[k] = []string{"ab", "test"}[vrt.Choice(tag+"."+n, 2)]
				}
			case "nullint":
				if vrt.Bool(tag + "." + n + ".null") {
					c[k] = nil
				} else {
					c[k] = vrt.Int64(tag + "." + n)
				}
			case "decimal":
				c[k] = []string{"12.50", "0.10"}[vrt.Choice(tag+"."+n, 2)]
			case "float":
				// the value as phase one read it (text or single precision, parsed into a float64)
				c[k] = []float64{1.1, 0.5}[vrt.Choice(tag+"."+n, 2)]
			default:
				c[k] = vrt.Int64(tag + "." + n)
			}
		}
	}
	return c
}

// uCellsConcrete: a row nobody touches (fixed cells of each kind).
func uCellsConcrete(s uSchema, key int64) []driver.Value {
	c := make([]driver.Value, len(s.cols))
	for k := range s.cols {
		switch {
		case s.isPK(k):
			c[k] = key + int64(k)
		case s.kind(k) == "varchar":
			c[k] = "x"
		case s.kind(k) == "decimal":
			c[k] = "7.25"
		case s.kind(k) == "float":
			c[k] = float64(0.25)
		default:
			c[k] = int64(7)
		}
	}
	return c
}

func VerifC09Foreign() {
	c09Foreign(uSchemas[vrt.Choice("schema", len(uSchemas))], "")
}

// VerifC09Typed: the same three-way comparison over a nullable VARCHAR and a
// nullable BIGINT column (NULL or a value, before / after / now).
func VerifC09Typed() {
	c09Foreign(uTyped, "typed-")
}

// VerifC09Decimal: ... and over a DECIMAL column (three sample values).
func VerifC09Decimal() {
	c09Foreign(uTypedDecimal, "decimal-")
}

func c09Foreign(s uSchema, prefix string) {
	kind := vrt.Choice("kind", 3)
	xid, branchID := "10.0.0.1:8091:77", int64(2)
	if prefix == "" {
		xid, branchID = vrt.String("xid", 2), int64(1+vrt.Choice("branch", 2))
	}
	before := uCells(s, "before", 10)
	after := uCells(s, "after", 10)
	untouched := uCells(s, "other", 50)
	if prefix != "" {
		untouched = uCellsConcrete(s, 50)
	}
	var log undo.SQLUndoLog
	switch kind {
	case 0:
		log = undo.SQLUndoLog{SQLType: types.SQLTypeUpdate, TableName: s.table, BeforeImage: uImage(s, types.SQLTypeUpdate, [][]driver.Value{before}), AfterImage: uImage(s, types.SQLTypeUpdate, [][]driver.Value{after})}
	case 1:
		log = undo.SQLUndoLog{SQLType: types.SQLTypeInsert, TableName: s.table, BeforeImage: uImage(s, types.SQLTypeInsert, nil), AfterImage: uImage(s, types.SQLTypeInsert, [][]driver.Value{after})}
	default:
		log = undo.SQLUndoLog{SQLType: types.SQLTypeDelete, TableName: s.table, BeforeImage: uImage(s, types.SQLTypeDelete, [][]driver.Value{before}), AfterImage: uImage(s, types.SQLTypeDelete, nil)}
	}
	w := uSetup(s, &undo.BranchUndoLog{Xid: xid, BranchID: uint64(branchID), Logs: []undo.SQLUndoLog{log}}, xid, branchID)
	w.addUndoLog()
	if prefix == "" {
		w.d.scanKind = vrt.Choice("column.scan.kind", 3)
	}

	// the row as it is now: any foreign modification since the local commit
	curPresent := vrt.Bool("current.present")
	current := uCells(s, "current", 10)
	w.d.rows = append(w.d.rows, uRow{cells: append([]driver.Value(nil), untouched...), present: true})
	if curPresent {
		w.d.rows = append(w.d.rows, uRow{cells: append([]driver.Value(nil), current...), present: true})
	}
	key := pkVals(uRow{cells: before}, s)

	// what the row looked like right after / right before the branch
	eqAfter, eqBefore := false, false
	switch kind {
	case 0:
		eqAfter = curPresent && uSameCells(current, after)
		eqBefore = curPresent && uSameCells(current, before)
	case 1:
		eqAfter = curPresent && uSameCells(current, after)
		eqBefore = !curPresent
	default:
		eqAfter = !curPresent
		eqBefore = curPresent && uSameCells(current, before)
	}

	if kind == 0 {
		// an UPDATE that changed nothing is not a write: there is nothing to undo
		// and nothing that a rollback could overwrite
		vrt.Assume(!uSameCells(before, after))
	}
	st, err, panicked := w.rollback()
	tag := prefix + uKindNames[kind]
	vrt.Reach("c09/" + tag)
	vrt.Assert(!panicked, "c09/no-panic/"+tag)
	vrt.Observe("stub.bad", w.d.bad)
	if prefix != "" {
		es := ""
		if err != nil {
			es = err.Error()
		}
		vrt.Observe("rollback.err", es)
	}
	vrt.Assert(w.d.bad == "", "c09/stub-understood-every-statement/"+tag)
	if panicked || w.d.bad != "" {
		return
	}
	row := w.d.find(key)
	other := w.d.find(pkVals(uRow{cells: untouched}, s))
	vrt.Assert(other != nil && uSameCells(other.cells, untouched), "c09/untouched-row-unchanged/"+tag)
	switch {
	case eqAfter:
		vrt.Reach("c09/current=after")
		vrt.Assert(err == nil && st == branch.BranchStatusPhasetwoRollbacked, "c09/current=after=>rollbacked/"+tag)
		if kind == 1 {
			vrt.Assert(row == nil, "c09/current=after=>inserted-row-removed/"+tag)
		} else {
			vrt.Assert(row != nil && uSameCells(row.cells, before), "c09/current=after=>row-restored/"+tag)
		}
		vrt.Assert(!w.d.undoLogPresent(xid, branchID), "c09/current=after=>undo-log-gone/"+tag)
	case eqBefore:
		vrt.Reach("c09/current=before")
		vrt.Assert(err == nil && st == branch.BranchStatusPhasetwoRollbacked, "c09/current=before=>rollbacked/"+tag)
		if kind == 1 {
			vrt.Assert(row == nil, "c09/current=before=>row-still-absent/"+tag)
		} else {
			vrt.Assert(row != nil && uSameCells(row.cells, before), "c09/current=before=>row-unchanged/"+tag)
		}
	default:
		vrt.Reach("c09/foreign-write")
		vrt.Assert(st != branch.BranchStatusPhasetwoRollbacked, "c09/foreign-write=>not-rollbacked/"+tag)
		if curPresent {
			vrt.Assert(row != nil && uSameCells(row.cells, current), "c09/foreign-write=>row-left-alone/"+tag)
		} else {
			vrt.Assert(row == nil, "c09/foreign-write=>row-left-absent/"+tag)
		}
		vrt.Assert(w.d.undoLogPresent(xid, branchID), "c09/foreign-write=>undo-log-kept/"+tag)
	}
}

// VerifC09TwoRows: an UPDATE branch that changed two rows; each row, as it is
// now, is arbitrary. Only when every row still equals its after image may the
// compensation run; when every row equals its before image there is nothing to
// do; anything else is a foreign write, on whichever row it happened.
func VerifC09TwoRows() {
	s := uSchemas[vrt.Choice("schema", len(uSchemas))]
	xid, branchID := vrt.String("xid", 2), int64(1+vrt.Choice("branch", 2))
	b1, a1 := uCells(s, "r1.before", 10), uCells(s, "r1.after", 10)
	b2, a2 := uCells(s, "r2.before", 20), uCells(s, "r2.after", 20)
	k1, k2 := int64(10), int64(20)
	if len(s.pk) == 2 && vrt.Bool("key.texts.collide") {
		// (1,11) and (11,1): different rows whose key values, written one after the other, read the same
		k1, k2 = 1, 11
		for _, c := range [][]driver.Value{b1, a1} {
			c[s.pk[0]], c[s.pk[1]] = int64(1), int64(11)
		}
		for _, c := range [][]driver.Value{b2, a2} {
			c[s.pk[0]], c[s.pk[1]] = int64(11), int64(1)
		}
	}
	vrt.Assume(!uSameCells(b1, a1) && !uSameCells(b2, a2))
	log := undo.SQLUndoLog{SQLType: types.SQLTypeUpdate, TableName: s.table,
		BeforeImage: uImage(s, types.SQLTypeUpdate, [][]driver.Value{b1, b2}),
		AfterImage:  uImage(s, types.SQLTypeUpdate, [][]driver.Value{a1, a2})}
	w := uSetup(s, &undo.BranchUndoLog{Xid: xid, BranchID: uint64(branchID), Logs: []undo.SQLUndoLog{log}}, xid, branchID)
	w.addUndoLog()
	c1, c2 := uCells(s, "r1.current", 10), uCells(s, "r2.current", 20)
	if k1 != 10 {
		c1[s.pk[0]], c1[s.pk[1]] = int64(1), int64(11)
		c2[s.pk[0]], c2[s.pk[1]] = int64(11), int64(1)
	}
	_ = k2
	w.d.rows = append(w.d.rows, uRow{cells: append([]driver.Value(nil), c1...), present: true}, uRow{cells: append([]driver.Value(nil), c2...), present: true})

	allAfter := uSameCells(c1, a1) && uSameCells(c2, a2)
	allBefore := uSameCells(c1, b1) && uSameCells(c2, b2)
	st, err, panicked := w.rollback()
	vrt.Reach("c09/two-rows")
	vrt.Assert(!panicked, "c09/no-panic/two-rows")
	vrt.Observe("stub.bad", w.d.bad)
	vrt.Assert(w.d.bad == "", "c09/stub-understood-every-statement/two-rows")
	if panicked || w.d.bad != "" {
		return
	}
	r1, r2 := w.d.find(pkVals(uRow{cells: b1}, s)), w.d.find(pkVals(uRow{cells: b2}, s))
	vrt.Assert(r1 != nil && r2 != nil, "c09/rows-still-there/two-rows")
	if r1 == nil || r2 == nil {
		return
	}
	switch {
	case allAfter:
		vrt.Reach("c09/two-rows/current=after")
		vrt.Assert(err == nil && st == branch.BranchStatusPhasetwoRollbacked, "c09/current=after=>rollbacked/two-rows")
		vrt.Assert(uSameCells(r1.cells, b1) && uSameCells(r2.cells, b2), "c09/current=after=>rows-restored/two-rows")
	case allBefore:
		vrt.Reach("c09/two-rows/current=before")
		vrt.Assert(err == nil && st == branch.BranchStatusPhasetwoRollbacked, "c09/current=before=>rollbacked/two-rows")
		vrt.Assert(uSameCells(r1.cells, b1) && uSameCells(r2.cells, b2), "c09/current=before=>rows-unchanged/two-rows")
	default:
		vrt.Reach("c09/two-rows/foreign-write")
		vrt.Assert(st != branch.BranchStatusPhasetwoRollbacked, "c09/foreign-write=>not-rollbacked/two-rows")
		vrt.Assert(uSameCells(r1.cells, c1) && uSameCells(r2.cells, c2), "c09/foreign-write=>rows-left-alone/two-rows")
		vrt.Assert(w.d.undoLogPresent(xid, branchID), "c09/foreign-write=>undo-log-kept/two-rows")
	}
}
