package sql

// C09 — branch rollback never overwrites a foreign write (data validation on).

import (
	"database/sql/driver"

	"seata.apache.org/seata-go/pkg/datasource/sql/types"
	"seata.apache.org/seata-go/pkg/datasource/sql/undo"
	"seata.apache.org/seata-go/pkg/protocol/branch"
	"seata.apache.org/seata-go/pkg/zzverif/vrt"
)

var uKindNames = []string{"update", "insert", "delete"}

// uCells: a row of the schema with the given (concrete) key and symbolic other cells.
func uCells(s uSchema, tag string, key int64) []driver.Value {
	c := make([]driver.Value, len(s.cols))
	for k, n := range s.cols {
		if s.isPK(k) {
			c[k] = key + int64(k) // distinct concrete key parts
		} else {
			c[k] = vrt.Int64(tag + "." + n)
		}
	}
	return c
}

func VerifC09Foreign() {
	s := uSchemas[vrt.Choice("schema", len(uSchemas))]
	kind := vrt.Choice("kind", 3)
	xid, branchID := vrt.String("xid", 2), int64(1+vrt.Choice("branch", 2))
	before := uCells(s, "before", 10)
	after := uCells(s, "after", 10)
	untouched := uCells(s, "other", 50)
	var log undo.SQLUndoLog
	switch kind {
	case 0:
		log = undo.SQLUndoLog{SQLType: types.SQLTypeUpdate, TableName: s.table, BeforeImage: uImage(s, types.SQLTypeUpdate, [][]driver.Value{before}), AfterImage: uImage(s, types.SQLTypeUpdate, [][]driver.Value{after})}
	case 1:
		log = undo.SQLUndoLog{SQLType: types.SQLTypeInsert, TableName: s.table, BeforeImage: uImage(s, types.SQLTypeInsert, nil), AfterImage: uImage(s, types.SQLTypeInsert, [][]driver.Value{after})}
	default:
		log = undo.SQLUndoLog{SQLType: types.SQLTypeDelete, TableName: s.table, BeforeImage: uImage(s, types.SQLTypeDelete, [][]driver.Value{before}), AfterImage: uImage(s, types.SQLTypeDelete, nil)}
	}
	w := uSetup(s, &undo.BranchUndoLog{Xid: xid, BranchID: uint64(branchID), Logs: []undo.SQLUndoLog{log}}, xid, branchID)
	w.addUndoLog()

	// the row as it is now: any foreign modification since the local commit
	curPresent := vrt.Bool("current.present")
	current := uCells(s, "current", 10)
	w.d.rows = append(w.d.rows, uRow{cells: append([]driver.Value(nil), untouched...), present: true})
	if curPresent {
		w.d.rows = append(w.d.rows, uRow{cells: append([]driver.Value(nil), current...), present: true})
	}
	key := pkVals(uRow{cells: before}, s)

	// what the row looked like right after / right before the branch
	eqAfter, eqBefore := false, false
	switch kind {
	case 0:
		eqAfter = curPresent && uSameCells(current, after)
		eqBefore = curPresent && uSameCells(current, before)
	case 1:
		eqAfter = curPresent && uSameCells(current, after)
		eqBefore = !curPresent
	default:
		eqAfter = !curPresent
		eqBefore = curPresent && uSameCells(current, before)
	}

	if kind == 0 {
		// an UPDATE that changed nothing is not a write: there is nothing to undo
		// and nothing that a rollback could overwrite
		vrt.Assume(!uSameCells(before, after))
	}
	st, err, panicked := w.rollback()
	tag := uKindNames[kind]
	vrt.Reach("c09/" + tag)
	vrt.Assert(!panicked, "c09/no-panic/"+tag)
	vrt.Observe("stub.bad", w.d.bad)
	vrt.Assert(w.d.bad == "", "c09/stub-understood-every-statement/"+tag)
	if panicked || w.d.bad != "" {
		return
	}
	row := w.d.find(key)
	other := w.d.find(pkVals(uRow{cells: untouched}, s))
	vrt.Assert(other != nil && uSameCells(other.cells, untouched), "c09/untouched-row-unchanged/"+tag)
	switch {
	case eqAfter:
		vrt.Reach("c09/current=after")
		vrt.Assert(err == nil && st == branch.BranchStatusPhasetwoRollbacked, "c09/current=after=>rollbacked/"+tag)
		if kind == 1 {
			vrt.Assert(row == nil, "c09/current=after=>inserted-row-removed/"+tag)
		} else {
			vrt.Assert(row != nil && uSameCells(row.cells, before), "c09/current=after=>row-restored/"+tag)
		}
		vrt.Assert(!w.d.undoLogPresent(xid, branchID), "c09/current=after=>undo-log-gone/"+tag)
	case eqBefore:
		vrt.Reach("c09/current=before")
		vrt.Assert(err == nil && st == branch.BranchStatusPhasetwoRollbacked, "c09/current=before=>rollbacked/"+tag)
		if kind == 1 {
			vrt.Assert(row == nil, "c09/current=before=>row-still-absent/"+tag)
		} else {
			vrt.Assert(row != nil && uSameCells(row.cells, before), "c09/current=before=>row-unchanged/"+tag)
		}
	default:
		vrt.Reach("c09/foreign-write")
		vrt.Assert(st != branch.BranchStatusPhasetwoRollbacked, "c09/foreign-write=>not-rollbacked/"+tag)
		if curPresent {
			vrt.Assert(row != nil && uSameCells(row.cells, current), "c09/foreign-write=>row-left-alone/"+tag)
		} else {
			vrt.Assert(row == nil, "c09/foreign-write=>row-left-absent/"+tag)
		}
		vrt.Assert(w.d.undoLogPresent(xid, branchID), "c09/foreign-write=>undo-log-kept/"+tag)
	}
}
