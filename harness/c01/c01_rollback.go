package sql

// C01 — AT global rollback restores every row the transaction touched, and
// 'rollbacked' is answered only when that is the case.
// C10 — rollback is idempotent, atomic per attempt, and blocks a late phase one.

import (
	"database/sql/driver"

	"seata.apache.org/seata-go/pkg/datasource/sql/types"
	"seata.apache.org/seata-go/pkg/datasource/sql/undo"
	"seata.apache.org/seata-go/pkg/protocol/branch"
	"seata.apache.org/seata-go/pkg/zzverif/vrt"
)

// uScenario builds a branch (its undo logs), the table as phase one left it,
// and the table as it was before the global transaction.
type uScenario struct {
	s       uSchema
	logs    []undo.SQLUndoLog
	initial []uRow // before the global transaction (touched rows + untouched row)
	now     []uRow // after the branch's local commit
	tag     string
	fixedID bool // concrete xid / branch id (the typed entries vary the cells instead)
}

func uRowsOf(cells ...[]driver.Value) []uRow {
	var out []uRow
	for _, c := range cells {
		out = append(out, uRow{cells: append([]driver.Value(nil), c...), present: true})
	}
	return out
}

func uBuildScenario() uScenario {
	return uBuildScenarioFor(uSchemas[vrt.Choice("schema", len(uSchemas))], "")
}

func uBuildScenarioFor(s uSchema, prefix string) (sc uScenario) {
	sc = uScenario{s: s}
	defer func() { sc.tag = prefix + sc.tag }()
	untouched := uCells(s, "other", 50)
	switch vrt.Choice("program", 5) {
	case 0: // UPDATE of one row
		b, a := uCells(s, "r1.before", 10), uCells(s, "r1.after", 10)
		sc.logs = []undo.SQLUndoLog{{SQLType: types.SQLTypeUpdate, TableName: s.table, BeforeImage: uImage(s, types.SQLTypeUpdate, [][]driver.Value{b}), AfterImage: uImage(s, types.SQLTypeUpdate, [][]driver.Value{a})}}
		sc.initial, sc.now, sc.tag = uRowsOf(untouched, b), uRowsOf(untouched, a), "update1"
	case 1: // UPDATE of two rows
		b1, a1 := uCells(s, "r1.before", 10), uCells(s, "r1.after", 10)
		b2, a2 := uCells(s, "r2.before", 20), uCells(s, "r2.after", 20)
		sc.logs = []undo.SQLUndoLog{{SQLType: types.SQLTypeUpdate, TableName: s.table, BeforeImage: uImage(s, types.SQLTypeUpdate, [][]driver.Value{b1, b2}), AfterImage: uImage(s, types.SQLTypeUpdate, [][]driver.Value{a1, a2})}}
		sc.initial, sc.now, sc.tag = uRowsOf(untouched, b1, b2), uRowsOf(untouched, a1, a2), "update2"
	case 2: // INSERT of one row
		a := uCells(s, "r1.after", 10)
		sc.logs = []undo.SQLUndoLog{{SQLType: types.SQLTypeInsert, TableName: s.table, BeforeImage: uImage(s, types.SQLTypeInsert, nil), AfterImage: uImage(s, types.SQLTypeInsert, [][]driver.Value{a})}}
		sc.initial, sc.now, sc.tag = uRowsOf(untouched), uRowsOf(untouched, a), "insert1"
	case 3: // DELETE of one row
		b := uCells(s, "r1.before", 10)
		sc.logs = []undo.SQLUndoLog{{SQLType: types.SQLTypeDelete, TableName: s.table, BeforeImage: uImage(s, types.SQLTypeDelete, [][]driver.Value{b}), AfterImage: uImage(s, types.SQLTypeDelete, nil)}}
		sc.initial, sc.now, sc.tag = uRowsOf(untouched, b), uRowsOf(untouched), "delete1"
	default: // two statements on the same row: UPDATE then UPDATE (replay must be in reverse order)
		v0, v1, v2 := uCells(s, "r1.v0", 10), uCells(s, "r1.v1", 10), uCells(s, "r1.v2", 10)
		sc.logs = []undo.SQLUndoLog{
			{SQLType: types.SQLTypeUpdate, TableName: s.table, BeforeImage: uImage(s, types.SQLTypeUpdate, [][]driver.Value{v0}), AfterImage: uImage(s, types.SQLTypeUpdate, [][]driver.Value{v1})},
			{SQLType: types.SQLTypeUpdate, TableName: s.table, BeforeImage: uImage(s, types.SQLTypeUpdate, [][]driver.Value{v1}), AfterImage: uImage(s, types.SQLTypeUpdate, [][]driver.Value{v2})},
		}
		sc.initial, sc.now, sc.tag = uRowsOf(untouched, v0), uRowsOf(untouched, v2), "update-update"
	}
	return sc
}

// uSameTable: same set of present rows (by key) with the same cells.
func uSameTable(s uSchema, a, b []uRow) bool {
	count := func(rs []uRow) int {
		n := 0
		for _, r := range rs {
			if r.present {
				n++
			}
		}
		return n
	}
	if count(a) != count(b) {
		return false
	}
	for _, ra := range a {
		if !ra.present {
			continue
		}
		found := false
		for _, rb := range b {
			if rb.present && uSameCells(pkVals(ra, s), pkVals(rb, s)) {
				found = uSameCells(ra.cells, rb.cells)
			}
		}
		if !found {
			return false
		}
	}
	return true
}

func uStart(sc uScenario) *uWorld {
	return uStartWith(sc, sc.tag == "update1" && vrt.Choice("dataValidation", 2) == 1)
}

func uStartWith(sc uScenario, validate bool) *uWorld {
	xid, branchID := "10.0.0.1:8091:77", int64(2)
	if !sc.fixedID {
		xid, branchID = vrt.String("xid", 2), int64(1+vrt.Choice("branch", 2))
	}
	w := uSetup(sc.s, &undo.BranchUndoLog{Xid: xid, BranchID: uint64(branchID), Logs: sc.logs}, xid, branchID)
	// data validation is exercised for the single-row update only in the integer
	// schemas (C09 covers it in depth), for every program in the typed ones
	undo.UndoConfig.DataValidation = validate
	w.addUndoLog()
	// the undo log of another branch of the same global transaction, and one of the same
	// branch number of another: neither is this rollback's business
	w.d.logs = append(w.d.logs, uLog{xid: xid, branch: branchID + 100, context: w.d.logs[0].context, info: w.d.logs[0].info, present: true},
		uLog{xid: xid + "-other", branch: branchID, context: w.d.logs[0].context, info: w.d.logs[0].info, present: true})
	w.d.rows = cloneRows(sc.now)
	return w
}

// VerifC01Rollback: one delivery of the rollback, with and without a failing statement.
func VerifC01Rollback() {
	sc := uBuildScenario()
	c01Rollback(sc, uStart(sc))
}

// VerifC01Typed: the same over a table with a nullable VARCHAR and a nullable
// BIGINT column (each cell NULL or a value) or with a DECIMAL column, data
// validation on or off, the undo log through the real JSON parser.
func VerifC01Typed() {
	s, prefix := uTyped, "typed-"
	if vrt.Choice("table", 2) == 1 {
		s, prefix = uTypedDecimal, "decimal-"
	}
	sc := uScenario{s: s, fixedID: true}
	untouched := uCellsConcrete(s, 50)
	b, a := uCells(s, "r1.before", 10), uCells(s, "r1.after", 10)
	switch vrt.Choice("program", 3) {
	case 0:
		sc.logs = []undo.SQLUndoLog{{SQLType: types.SQLTypeUpdate, TableName: s.table, BeforeImage: uImage(s, types.SQLTypeUpdate, [][]driver.Value{b}), AfterImage: uImage(s, types.SQLTypeUpdate, [][]driver.Value{a})}}
		sc.initial, sc.now, sc.tag = uRowsOf(untouched, b), uRowsOf(untouched, a), prefix+"update1"
	case 1:
		sc.logs = []undo.SQLUndoLog{{SQLType: types.SQLTypeInsert, TableName: s.table, BeforeImage: uImage(s, types.SQLTypeInsert, nil), AfterImage: uImage(s, types.SQLTypeInsert, [][]driver.Value{a})}}
		sc.initial, sc.now, sc.tag = uRowsOf(untouched), uRowsOf(untouched, a), prefix+"insert1"
	default:
		sc.logs = []undo.SQLUndoLog{{SQLType: types.SQLTypeDelete, TableName: s.table, BeforeImage: uImage(s, types.SQLTypeDelete, [][]driver.Value{b}), AfterImage: uImage(s, types.SQLTypeDelete, nil)}}
		sc.initial, sc.now, sc.tag = uRowsOf(untouched, b), uRowsOf(untouched), prefix+"delete1"
	}
	c01Rollback(sc, uStartWith(sc, vrt.Bool("dataValidation")))
}

func c01Rollback(sc uScenario, w *uWorld) {
	w.d.failAt = vrt.Choice("failAt", vrt.Param("maxfail", 12)+1) - 1
	st, err, panicked := w.rollback()
	vrt.Observe("stub.bad", w.d.bad)
	vrt.Reach("c01/" + sc.tag)
	vrt.Assert(!panicked, "c01/no-panic/"+sc.tag)
	vrt.Assert(w.d.bad == "", "c01/statements-are-well-formed/"+sc.tag)
	if panicked || w.d.bad != "" {
		return
	}
	if w.d.faulted {
		vrt.Reach("c01/fault")
		vrt.Assert(st != branch.BranchStatusPhasetwoRollbacked, "c01/failure-never-reported-as-rollbacked/"+sc.tag)
		return
	}
	vrt.Reach("c01/clean")
	vrt.Assert(err == nil && st == branch.BranchStatusPhasetwoRollbacked, "c01/clean-rollback-answers-rollbacked/"+sc.tag)
	vrt.Assert(uSameTable(sc.s, w.d.rows, sc.initial), "c01/table-restored/"+sc.tag)
	vrt.Assert(!w.d.undoLogPresent(w.xid, w.branch), "c01/undo-log-gone/"+sc.tag)
	vrt.Assert(w.d.undoLogPresent(w.xid, w.branch+100) && w.d.undoLogPresent(w.xid+"-other", w.branch), "c01/other-undo-logs-untouched/"+sc.tag)
	vrt.Assert(w.d.openTx == 0, "c01/effects-committed/"+sc.tag)
}

// VerifC10Retry: a failing attempt, a clean retry, a duplicate delivery.
func VerifC10Retry() {
	sc := uBuildScenario()
	w := uStart(sc)
	w.d.failAt = vrt.Choice("failAt", vrt.Param("maxfail", 12))
	preRows, preLogs := cloneRows(w.d.rows), append([]uLog(nil), w.d.logs...)
	st, _, panicked := w.rollback()
	vrt.Assert(!panicked, "c10/no-panic/"+sc.tag)
	if panicked || w.d.bad != "" {
		return
	}
	if w.d.faulted {
		vrt.Reach("c10/first-attempt-failed")
		vrt.Assert(st != branch.BranchStatusPhasetwoRollbacked, "c10/failed-attempt-not-rollbacked/"+sc.tag)
		// when COMMIT or ROLLBACK itself is the failing command, what becomes of the
		// transaction is the database's business (database/sql regards the Tx as done)
		failed := w.d.journal[w.d.failAt]
		if failed != "COMMIT" && failed != "ROLLBACK" {
			vrt.Assert(w.d.openTx == 0, "c10/failed-attempt-leaves-no-open-transaction/"+sc.tag)
		}
		vrt.Assert(uSameTable(sc.s, w.d.rows, preRows) && len(w.d.logs) == len(preLogs) && w.d.undoLogPresent(w.xid, w.branch), "c10/failed-attempt-leaves-no-partial-compensation/"+sc.tag)
		w.d.inTx, w.d.openTx = false, 0 // the database ends an abandoned transaction when the connection is reset
	}
	// clean retry
	w.d.failAt = -1
	st, err, panicked := w.rollback()
	vrt.Reach("c10/retried")
	vrt.Assert(!panicked && err == nil && st == branch.BranchStatusPhasetwoRollbacked, "c10/clean-retry-answers-rollbacked/"+sc.tag)
	vrt.Assert(uSameTable(sc.s, w.d.rows, sc.initial), "c10/retry-reaches-the-rolled-back-state/"+sc.tag)
	vrt.Assert(w.d.openTx == 0, "c10/retry-leaves-no-open-transaction/"+sc.tag)
	// duplicate delivery after success
	after := cloneRows(w.d.rows)
	st, err, panicked = w.rollback()
	vrt.Assert(!panicked && err == nil && st == branch.BranchStatusPhasetwoRollbacked, "c10/duplicate-delivery-answers-rollbacked/"+sc.tag)
	vrt.Assert(uSameTable(sc.s, w.d.rows, after), "c10/duplicate-delivery-changes-nothing/"+sc.tag)
	vrt.Assert(w.d.openTx == 0, "c10/duplicate-delivery-leaves-no-open-transaction/"+sc.tag)
	st, err, panicked = w.rollback()
	vrt.Assert(!panicked && err == nil && st == branch.BranchStatusPhasetwoRollbacked, "c10/third-delivery-answers-rollbacked/"+sc.tag)
	vrt.Assert(w.d.openTx == 0, "c10/third-delivery-leaves-no-open-transaction/"+sc.tag)
}

// VerifC10Marker: a rollback that arrives before the branch wrote its undo log
// leaves a marker that makes the late phase-one flush fail.
func VerifC10Marker() {
	s := uSchemas[0]
	b, a := uCells(s, "r1.before", 10), uCells(s, "r1.after", 10)
	log := undo.SQLUndoLog{SQLType: types.SQLTypeUpdate, TableName: s.table, BeforeImage: uImage(s, types.SQLTypeUpdate, [][]driver.Value{b}), AfterImage: uImage(s, types.SQLTypeUpdate, [][]driver.Value{a})}
	xid, branchID := vrt.String("xid", 2), int64(1+vrt.Choice("branch", 2))
	w := uSetup(s, &undo.BranchUndoLog{Xid: xid, BranchID: uint64(branchID), Logs: []undo.SQLUndoLog{log}}, xid, branchID)
	w.d.rows = uRowsOf(b)
	// no undo log yet: the rollback arrives first - once or repeatedly
	st, err, panicked := w.rollback()
	vrt.Reach("c10/marker")
	vrt.Assert(!panicked && err == nil && st == branch.BranchStatusPhasetwoRollbacked, "c10/early-rollback-answers-rollbacked")
	vrt.Assert(w.d.undoLogPresent(xid, branchID), "c10/early-rollback-leaves-a-marker")
	vrt.Assert(w.d.openTx == 0, "c10/early-rollback-leaves-no-open-transaction")
	for k := vrt.Choice("early.repeats", vrt.Param("maxrepeats", 3)); k > 0; k-- {
		vrt.Reach("c10/marker-redelivery")
		st, err, panicked = w.rollback()
		vrt.Assert(!panicked && err == nil && st == branch.BranchStatusPhasetwoRollbacked, "c10/repeated-early-rollback-answers-rollbacked")
		vrt.Assert(w.d.undoLogPresent(xid, branchID), "c10/repeated-early-rollback-keeps-the-marker")
		vrt.Assert(w.d.openTx == 0, "c10/repeated-early-rollback-leaves-no-open-transaction")
	}
	// late phase one: business write and undo-log flush in one local transaction
	conn, _ := uConnector{w.d}.Connect(nil)
	tx, _ := conn.(*uConn).Begin()
	w.d.wrows = uRowsOf(a) // the business write
	tranCtx := types.NewTxCtx()
	tranCtx.XID, tranCtx.BranchID, tranCtx.TransactionMode, tranCtx.DBType = xid, uint64(branchID), types.ATMode, types.DBTypeMySQL
	tranCtx.RoundImages.AppendBeofreImage(log.BeforeImage)
	tranCtx.RoundImages.AppendAfterImage(log.AfterImage)
	mgr, _ := undo.GetUndoLogManager(types.DBTypeMySQL)
	ferr := mgr.FlushUndoLog(tranCtx, conn)
	vrt.Assert(ferr != nil, "c10/late-phase-one-flush-fails-on-the-marker")
	if ferr != nil {
		tx.Rollback()
	} else {
		tx.Commit()
	}
	vrt.Assert(uSameTable(s, w.d.rows, uRowsOf(b)), "c10/late-phase-one-commits-nothing")
	// another rollback delivery finds the marker: nothing to undo, still 'rollbacked'
	st, err, panicked = w.rollback()
	vrt.Assert(!panicked && err == nil && st == branch.BranchStatusPhasetwoRollbacked, "c10/rollback-on-marker-answers-rollbacked")
	vrt.Assert(w.d.openTx == 0, "c10/rollback-on-marker-leaves-no-open-transaction")
	vrt.Assert(uSameTable(s, w.d.rows, uRowsOf(b)), "c10/rollback-on-marker-touches-no-data")
}
