package sql

import (
	"database/sql/driver"

	"seata.apache.org/seata-go/pkg/datasource/sql/undo"
	"seata.apache.org/seata-go/pkg/protocol/branch"
	"seata.apache.org/seata-go/pkg/zzverif/vrt"
)

// VerifC01Recorded: end to end for the statement kinds whose recording is not a
// single image pair of the statement's own type - the real AT executors record
// the statement on the evaluating stub database (as in C18), the recorded
// images become the branch undo log the way FlushUndoLog pairs them, and the
// real rollback must take the table back to what it was.
func VerifC01Recorded() {
	st := c18Stmts[vrt.Choice("statement", len(c18Stmts))]
	name := st.name
	if !st.valid {
		return
	}
	c18WantNull = c18NullTemplate(st.name)
	w := c18Setup(st.composite, c18AutoKey(st.name))
	s := uSchemas[0]
	if st.composite {
		s = uSchemas[1]
	}
	var initial []uRow
	for _, r := range w.d.rows {
		if r.present {
			cells := make([]driver.Value, len(r.cells))
			for k := range r.cells {
				cells[k] = r.get(k)
			}
			initial = append(initial, uRow{cells: cells, present: true})
		}
	}
	args := c18Args(st)
	tx, err := w.c.BeginTx(w.ctx, driver.TxOptions{})
	vrt.Assert(err == nil && tx != nil, "c01/recorded/begin-ok")
	_, err = w.c.ExecContext(w.ctx, st.query, args)
	if err != nil || w.d.bad != "" {
		return // C18's subject
	}
	// the undo log as FlushUndoLog builds it from the recorded images
	befores, afters := w.c.txCtx.RoundImages.BeofreImages(), w.c.txCtx.RoundImages.AfterImages()
	var logs []undo.SQLUndoLog
	for i := 0; i < len(befores) || i < len(afters); i++ {
		var l undo.SQLUndoLog
		if i < len(befores) && befores[i] != nil {
			l.TableName, l.SQLType, l.BeforeImage = befores[i].TableName, befores[i].SQLType, befores[i]
		} else if i < len(afters) && afters[i] != nil {
			l.TableName, l.SQLType = afters[i].TableName, afters[i].SQLType
		}
		if i < len(afters) {
			l.AfterImage = afters[i]
		}
		logs = append(logs, l)
	}
	xid, branchID := "xid-1", int64(7)
	uw := uSetup(s, &undo.BranchUndoLog{Xid: xid, BranchID: uint64(branchID), Logs: logs}, xid, branchID)
	undo.UndoConfig.DataValidation = false
	uw.addUndoLog()
	for _, r := range w.d.rows {
		if r.present {
			cells := make([]driver.Value, len(r.cells))
			for k := range r.cells {
				cells[k] = r.get(k)
			}
			uw.d.rows = append(uw.d.rows, uRow{cells: cells, present: true})
		}
	}
	stt, rerr, panicked := uw.rollback()
	vrt.Reach("c01/recorded/" + name)
	vrt.Observe("stub.bad", uw.d.bad)
	vrt.Assert(!panicked && uw.d.bad == "", "c01/recorded/no-panic/"+name)
	if panicked || uw.d.bad != "" {
		return
	}
	vrt.Assert(rerr == nil && stt == branch.BranchStatusPhasetwoRollbacked, "c01/recorded/rollbacked/"+name)
	vrt.Assert(uSameTable(s, uw.d.rows, initial), "c01/recorded/table-restored/"+name)
}

// VerifC09Recorded: as VerifC01Recorded, but after the branch's local commit a
// foreign writer changes one cell of one row the branch touched (or removes the
// row); with data validation on, a rollback that answers 'rollbacked' must not
// have overwritten that write.
func VerifC09Recorded() {
	st := c18Stmts[vrt.Choice("statement", len(c18Stmts))]
	name := st.name
	if !st.valid {
		return
	}
	c18WantNull = c18NullTemplate(st.name)
	w := c18Setup(st.composite, c18AutoKey(st.name))
	s := uSchemas[0]
	if st.composite {
		s = uSchemas[1]
	}
	args := c18Args(st)
	tx, err := w.c.BeginTx(w.ctx, driver.TxOptions{})
	vrt.Assert(err == nil && tx != nil, "c09/recorded/begin-ok")
	_, err = w.c.ExecContext(w.ctx, st.query, args)
	if err != nil || w.d.bad != "" || (len(w.d.changedBefore) == 0 && len(w.d.changedAfter) == 0) {
		return
	}
	befores, afters := w.c.txCtx.RoundImages.BeofreImages(), w.c.txCtx.RoundImages.AfterImages()
	var logs []undo.SQLUndoLog
	for i := 0; i < len(befores) || i < len(afters); i++ {
		var l undo.SQLUndoLog
		if i < len(befores) && befores[i] != nil {
			l.TableName, l.SQLType, l.BeforeImage = befores[i].TableName, befores[i].SQLType, befores[i]
		} else if i < len(afters) && afters[i] != nil {
			l.TableName, l.SQLType = afters[i].TableName, afters[i].SQLType
		}
		if i < len(afters) {
			l.AfterImage = afters[i]
		}
		logs = append(logs, l)
	}
	xid, branchID := "xid-1", int64(7)
	uw := uSetup(s, &undo.BranchUndoLog{Xid: xid, BranchID: uint64(branchID), Logs: logs}, xid, branchID)
	undo.UndoConfig.DataValidation = true
	uw.addUndoLog()
	for _, r := range w.d.rows {
		if r.present {
			cells := make([]driver.Value, len(r.cells))
			for k := range r.cells {
				cells[k] = r.get(k)
			}
			uw.d.rows = append(uw.d.rows, uRow{cells: cells, present: true})
		}
	}
	// the foreign write: one non-key cell of the first row the branch changed
	// (a row the branch inserted, when it changed no existing one)
	var victim aRow
	if len(w.d.changedBefore) > 0 {
		victim = w.d.changedBefore[0]
	} else {
		victim = w.d.changedAfter[0]
	}
	var target *uRow
	for i := range uw.d.rows {
		same := true
		for _, p := range w.d.pk {
			if uw.d.rows[i].cells[p] != driver.Value(victim.cells[p]) {
				same = false
			}
		}
		if same {
			target = &uw.d.rows[i]
		}
	}
	ncols := len(s.cols) - len(s.pk)
	if m := vrt.Param("foreigncols", 2); m < ncols {
		ncols = m
	}
	col := len(s.cols) - 1 - vrt.Choice("foreign.column", ncols)
	if s.isPK(col) {
		return
	}
	foreign := vrt.Int64("foreign.value")
	if target == nil {
		// the branch deleted the row: somebody has used the key again since, with other data
		vrt.Reach("c09/recorded/key-reused")
		cells := make([]driver.Value, len(victim.cells))
		for k := range victim.cells {
			cells[k] = victim.get(k)
		}
		uw.d.rows = append(uw.d.rows, uRow{cells: cells, present: true})
		target = &uw.d.rows[len(uw.d.rows)-1]
	}
	vrt.Assume(driver.Value(foreign) != target.cells[col])
	target.cells[col] = foreign
	key := pkVals(*target, s)
	stt, _, panicked := uw.rollback()
	vrt.Reach("c09/recorded/" + name)
	vrt.Assert(!panicked && uw.d.bad == "", "c09/recorded/no-panic/"+name)
	if panicked || uw.d.bad != "" {
		return
	}
	if stt == branch.BranchStatusPhasetwoRollbacked {
		vrt.Reach("c09/recorded/rollbacked")
		row := uw.d.find(key)
		vrt.Assert(row != nil && row.cells[col] == driver.Value(foreign), "c09/recorded/rollbacked=>foreign-write-survives/"+name)
	} else {
		vrt.Reach("c09/recorded/refused")
	}
}

// c01CapConn: a driver connection that only notes whether an undo-log row was written.
type c01CapConn struct {
	driver.Conn
	inserts int
}

type c01CapStmt struct {
	driver.Stmt
	c *c01CapConn
}

func (c *c01CapConn) Prepare(q string) (driver.Stmt, error) { return &c01CapStmt{c: c}, nil }
func (s *c01CapStmt) Exec(args []driver.Value) (driver.Result, error) {
	s.c.inserts++
	return driver.RowsAffected(1), nil
}
func (s *c01CapStmt) Close() error { return nil }

// VerifC01TwoStatements: two statements in one local transaction of the branch (3
// first × 5 second forms over the same or other rows, as in VerifC03TwoStatements);
// whether an undo-log row exists is decided by the real FlushUndoLog, its content is
// the recorded images; the real rollback must take the table back to what it was.
func VerifC01TwoStatements() {
	firsts := []c18Stmt{
		{"update-by-key", "UPDATE t SET a = ? WHERE id = ?", 2, true, false, map[int]int64{1: 10}},
		{"delete-by-key", "DELETE FROM t WHERE id = ?", 1, true, false, map[int]int64{0: 20}},
		{"insert-one", "INSERT INTO t (id, a, b) VALUES (?, ?, ?)", 3, true, false, map[int]int64{0: 30}},
	}
	seconds := []c18Stmt{
		{"update-same-row", "UPDATE t SET b = ? WHERE id = 10", 1, true, false, nil},
		{"update-no-row", "UPDATE t SET b = ? WHERE id = 77", 1, true, false, nil},
		{"delete-other-row", "DELETE FROM t WHERE id = 20", 0, true, false, nil},
		{"delete-inserted-row", "DELETE FROM t WHERE id = 30", 0, true, false, nil},
		{"insert-another", "INSERT INTO t (id, a, b) VALUES (40, ?, ?)", 2, true, false, nil},
	}
	c18WantNull = false
	w := c18Setup(false)
	s := uSchemas[0]
	var initial []uRow
	for _, r := range w.d.rows {
		if r.present {
			cells := make([]driver.Value, len(r.cells))
			for k := range r.cells {
				cells[k] = r.get(k)
			}
			initial = append(initial, uRow{cells: cells, present: true})
		}
	}
	f, g := firsts[vrt.Choice("first", len(firsts))], seconds[vrt.Choice("second", len(seconds))]
	name := f.name + "+" + g.name
	tx, err := w.c.BeginTx(w.ctx, driver.TxOptions{})
	vrt.Assert(err == nil && tx != nil, "c01/two/begin-ok")
	changed := false
	for k, st := range []c18Stmt{f, g} {
		_, err = w.c.ExecContext(w.ctx, st.query, c18ArgsTagged(st, []string{"", "second."}[k]))
		if err != nil || w.d.bad != "" {
			return // a statement the database rejects (duplicate key ...): not this entry's subject
		}
		changed = changed || len(w.d.changedBefore) > 0 || len(w.d.changedAfter) > 0
	}
	if !changed {
		return
	}
	befores, afters := w.c.txCtx.RoundImages.BeofreImages(), w.c.txCtx.RoundImages.AfterImages()
	var logs []undo.SQLUndoLog
	for i := 0; i < len(befores) || i < len(afters); i++ {
		var l undo.SQLUndoLog
		if i < len(befores) && befores[i] != nil {
			l.TableName, l.SQLType, l.BeforeImage = befores[i].TableName, befores[i].SQLType, befores[i]
		} else if i < len(afters) && afters[i] != nil {
			l.TableName, l.SQLType = afters[i].TableName, afters[i].SQLType
		}
		if i < len(afters) {
			l.AfterImage = afters[i]
		}
		logs = append(logs, l)
	}
	xid, branchID := "xid-1", int64(7)
	w.c.txCtx.XID, w.c.txCtx.BranchID = xid, uint64(branchID)
	uw := uSetup(s, &undo.BranchUndoLog{Xid: xid, BranchID: uint64(branchID), Logs: logs}, xid, branchID)
	undo.UndoConfig.DataValidation = vrt.Bool("dataValidation")
	// phase one's flush: does the branch get an undo-log row at all?
	capc := &c01CapConn{}
	mgr, merr := undo.GetUndoLogManager(w.c.txCtx.DBType)
	vrt.Assert(merr == nil, "c01/two/undo-manager")
	if merr != nil {
		return
	}
	ferr := mgr.FlushUndoLog(w.c.txCtx, capc)
	vrt.Assert(ferr == nil, "c01/two/flush-ok/"+name)
	vrt.Assert(capc.inserts <= 1, "c01/two/at-most-one-undo-log-row/"+name)
	if capc.inserts > 0 {
		uw.addUndoLog()
	} else {
		vrt.Reach("c01/two/no-undo-log-row")
	}
	for _, r := range w.d.rows {
		if r.present {
			cells := make([]driver.Value, len(r.cells))
			for k := range r.cells {
				cells[k] = r.get(k)
			}
			uw.d.rows = append(uw.d.rows, uRow{cells: cells, present: true})
		}
	}
	stt, rerr, panicked := uw.rollback()
	vrt.Reach("c01/two/" + name)
	vrt.Observe("stub.bad", uw.d.bad)
	vrt.Assert(!panicked && uw.d.bad == "", "c01/two/no-panic/"+name)
	if panicked || uw.d.bad != "" {
		return
	}
	vrt.Assert(rerr == nil && stt == branch.BranchStatusPhasetwoRollbacked, "c01/two/rollbacked/"+name)
	vrt.Assert(uSameTable(s, uw.d.rows, initial), "c01/two/table-restored/"+name)
}
