package sql

import (
	"database/sql/driver"

	"seata.apache.org/seata-go/pkg/datasource/sql/undo"
	"seata.apache.org/seata-go/pkg/protocol/branch"
	"seata.apache.org/seata-go/pkg/zzverif/vrt"
)

// VerifC01Recorded: end to end for the statement kinds whose recording is not a
// single image pair of the statement's own type - the real AT executors record
// the statement on the evaluating stub database (as in C18), the recorded
// images become the branch undo log the way FlushUndoLog pairs them, and the
// real rollback must take the table back to what it was.
func VerifC01Recorded() {
	st := c18Stmts[vrt.Choice("statement", len(c18Stmts))]
	name := st.name
	if !st.valid {
		return
	}
	w := c18Setup(st.composite, c18AutoKey(st.name))
	s := uSchemas[0]
	if st.composite {
		s = uSchemas[1]
	}
	var initial []uRow
	for _, r := range w.d.rows {
		if r.present {
			cells := make([]driver.Value, len(r.cells))
			for k, c := range r.cells {
				cells[k] = c
			}
			initial = append(initial, uRow{cells: cells, present: true})
		}
	}
	args := make([]driver.NamedValue, st.nargs)
	argNames := []string{"arg0", "arg1", "arg2", "arg3", "arg4", "arg5", "arg6"}
	for i := range args {
		if kv, ok := st.keyArgs[i]; ok {
			args[i] = driver.NamedValue{Ordinal: i + 1, Value: kv}
		} else {
			args[i] = driver.NamedValue{Ordinal: i + 1, Value: vrt.Int64(argNames[i])}
		}
	}
	tx, err := w.c.BeginTx(w.ctx, driver.TxOptions{})
	vrt.Assert(err == nil && tx != nil, "c01/recorded/begin-ok")
	_, err = w.c.ExecContext(w.ctx, st.query, args)
	if err != nil || w.d.bad != "" {
		return // C18's subject
	}
	// the undo log as FlushUndoLog builds it from the recorded images
	befores, afters := w.c.txCtx.RoundImages.BeofreImages(), w.c.txCtx.RoundImages.AfterImages()
	var logs []undo.SQLUndoLog
	for i := 0; i < len(befores) || i < len(afters); i++ {
		var l undo.SQLUndoLog
		if i < len(befores) && befores[i] != nil {
			l.TableName, l.SQLType, l.BeforeImage = befores[i].TableName, befores[i].SQLType, befores[i]
		} else if i < len(afters) && afters[i] != nil {
			l.TableName, l.SQLType = afters[i].TableName, afters[i].SQLType
		}
		if i < len(afters) {
			l.AfterImage = afters[i]
		}
		logs = append(logs, l)
	}
	xid, branchID := "xid-1", int64(7)
	uw := uSetup(s, &undo.BranchUndoLog{Xid: xid, BranchID: uint64(branchID), Logs: logs}, xid, branchID)
	undo.UndoConfig.DataValidation = false
	uw.addUndoLog()
	for _, r := range w.d.rows {
		if r.present {
			cells := make([]driver.Value, len(r.cells))
			for k, c := range r.cells {
				cells[k] = c
			}
			uw.d.rows = append(uw.d.rows, uRow{cells: cells, present: true})
		}
	}
	stt, rerr, panicked := uw.rollback()
	vrt.Reach("c01/recorded/" + name)
	vrt.Observe("stub.bad", uw.d.bad)
	vrt.Assert(!panicked && uw.d.bad == "", "c01/recorded/no-panic/"+name)
	if panicked || uw.d.bad != "" {
		return
	}
	vrt.Assert(rerr == nil && stt == branch.BranchStatusPhasetwoRollbacked, "c01/recorded/rollbacked/"+name)
	vrt.Assert(uSameTable(s, uw.d.rows, initial), "c01/recorded/table-restored/"+name)
}
