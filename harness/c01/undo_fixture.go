package sql

// Shared fixture for C01 / C09 / C10: AT branch rollback on a driver-level
// stub database ("memdb": one business table of integer columns plus the
// undo_log table, snapshot transactions, k-th statement fails). Real
// ATSourceManager.BranchRollback -> undo/mysql.undoLogManager.RunUndo ->
// base.Undo -> factor.GetUndoExecutor -> the three real undo executors, real
// data validation (queryCurrentRecords, IsRecordsEquals, compareRows,
// datasource.DeepEqual), real collection.EncodeMap/DecodeMap and compressor
// selection. The undo-log serializer is a stub that hands back the images as
// values (the bytes are C08's subject); image capture is C18's.

import (
	"context"
	"database/sql"
	"database/sql/driver"
	"errors"
	"io"
	"reflect"
	"strconv"
	"strings"
	"sync"

	"seata.apache.org/seata-go/pkg/datasource/sql/datasource"
	"seata.apache.org/seata-go/pkg/datasource/sql/types"
	"seata.apache.org/seata-go/pkg/datasource/sql/undo"
	undomysql "seata.apache.org/seata-go/pkg/datasource/sql/undo/mysql"
	undoparser "seata.apache.org/seata-go/pkg/datasource/sql/undo/parser"
	"seata.apache.org/seata-go/pkg/protocol/branch"
	"seata.apache.org/seata-go/pkg/rm"
	"seata.apache.org/seata-go/pkg/util/collection"
	"seata.apache.org/seata-go/pkg/zzverif/vrt"
)

type uRow struct {
	cells   []driver.Value // int64 or nil, in schema column order
	present bool
}

type uLog struct {
	xid     string
	branch  int64
	context []byte
	info    []byte
	status  int64
	present bool
}

type uSchema struct {
	table string
	cols  []string
	pk    []int // indices of the primary-key columns, in table order
	// column kinds ("" = BIGINT, scanned as uDB.scanKind says): "varchar" a nullable
	// VARCHAR, "nullint" a nullable BIGINT, "decimal" a DECIMAL(10,2) NOT NULL. What the
	// stub hands out per kind (driver value and scan type) is what go-sql-driver/mysql
	// v1.6.0 (the version in go.mod) does for a prepared statement (binary protocol):
	// fields.go scanType(), packets.go binaryRows.readRow.
	kinds []string
}

func (s uSchema) kind(k int) string {
	if k < len(s.kinds) {
		return s.kinds[k]
	}
	return ""
}

func (s uSchema) isPK(k int) bool {
	for _, p := range s.pk {
		if p == k {
			return true
		}
	}
	return false
}

func (s uSchema) col(name string) int {
	name = strings.Trim(strings.TrimSpace(name), "`")
	for k, c := range s.cols {
		if strings.EqualFold(c, name) {
			return k
		}
	}
	return -1
}

type uDB struct {
	scanKind  int // how the non-key columns scan: 0 nullable BIGINT, 1 BIGINT NOT NULL, 2 BIGINT UNSIGNED NOT NULL
	schema    uSchema
	rows      []uRow // committed state
	logs      []uLog
	wrows     []uRow // state inside the open transaction
	wlogs     []uLog
	inTx      bool
	txConn    *uConn // the connection the open transaction belongs to: statements on others autocommit
	openTx    int
	openConns int

	ops     int
	failAt  int
	faulted bool
	journal []string
	bad     string // a statement the stub could not interpret
	writes  int    // data-changing statements on the business table that succeeded
}

func cloneRows(r []uRow) []uRow {
	out := make([]uRow, len(r))
	for i, x := range r {
		out[i] = uRow{cells: append([]driver.Value(nil), x.cells...), present: x.present}
	}
	return out
}

func (d *uDB) step(what string) error {
	k := d.ops
	d.ops++
	d.journal = append(d.journal, what)
	if k == d.failAt {
		d.faulted = true
		return errors.New("injected database failure at " + what)
	}
	return nil
}

// cur: the state a statement on connection c works on - the open transaction's if c owns it,
// the committed state (autocommit) otherwise.
func (d *uDB) cur(c *uConn) (*[]uRow, *[]uLog) {
	if d.inTx && (d.txConn == nil || d.txConn == c) {
		return &d.wrows, &d.wlogs
	}
	return &d.rows, &d.logs
}

type uConnector struct{ d *uDB }

func (c uConnector) Connect(context.Context) (driver.Conn, error) {
	c.d.openConns++
	return &uConn{d: c.d}, nil
}
func (c uConnector) Driver() driver.Driver { return nil }

type uConn struct{ d *uDB }

func (c *uConn) Close() error { c.d.openConns--; return nil }
func (c *uConn) Begin() (driver.Tx, error) {
	if err := c.d.step("BEGIN"); err != nil {
		return nil, err
	}
	c.d.inTx = true
	c.d.txConn = c
	c.d.openTx++
	c.d.wrows = cloneRows(c.d.rows)
	c.d.wlogs = append([]uLog(nil), c.d.logs...)
	return &uTx{c.d}, nil
}
func (c *uConn) Prepare(q string) (driver.Stmt, error) {
	// collapse runs of blanks so that statement shapes can be matched by prefix
	return &uStmt{d: c.d, c: c, q: strings.Join(strings.Fields(q), " ")}, nil
}

type uTx struct{ d *uDB }

func (t *uTx) Commit() error {
	if err := t.d.step("COMMIT"); err != nil {
		return err
	}
	t.d.rows, t.d.logs = t.d.wrows, t.d.wlogs
	t.d.inTx = false
	t.d.openTx--
	return nil
}
func (t *uTx) Rollback() error {
	if err := t.d.step("ROLLBACK"); err != nil {
		return err
	}
	t.d.inTx = false
	t.d.openTx--
	return nil
}

type uStmt struct {
	d *uDB
	c *uConn
	q string
}

func (s *uStmt) Close() error  { return nil }
func (s *uStmt) NumInput() int { return -1 }

type uResult struct{ n int64 }

func (r uResult) LastInsertId() (int64, error) { return 0, nil }
func (r uResult) RowsAffected() (int64, error) { return r.n, nil }

func uText(v driver.Value) string {
	switch x := v.(type) {
	case string:
		return x
	case []byte:
		return string(x)
	}
	return "?"
}

func uInt(v driver.Value) int64 {
	switch x := v.(type) {
	case int64:
		return x
	case uint64:
		return int64(x)
	}
	return -1
}

// names between "(" and ")" starting at the first "(" after pos
func uParenList(q string, from int) []string {
	a := strings.Index(q[from:], "(")
	b := strings.Index(q[from:], ")")
	if a < 0 || b < a {
		return nil
	}
	parts := strings.Split(q[from+a+1:from+b], ",")
	for i := range parts {
		parts[i] = strings.Trim(strings.TrimSpace(parts[i]), "`")
	}
	return parts
}

// "x = ? , y = ?" / "x = ?  and y = ?" -> column names
func uAssignments(part, sep string) []string {
	var names []string
	for _, p := range strings.Split(part, sep) {
		p = strings.TrimSpace(p)
		if p == "" {
			continue
		}
		eq := strings.Index(p, "=")
		if eq < 0 {
			return nil
		}
		names = append(names, strings.Trim(strings.TrimSpace(p[:eq]), "`"))
	}
	return names
}

func (s *uStmt) matchPK(r uRow, cols []int, vals []driver.Value) bool {
	for k, c := range cols {
		if r.cells[c] != vals[k] {
			return false
		}
	}
	return true
}

func (s *uStmt) Exec(args []driver.Value) (driver.Result, error) {
	d := s.d
	lq := strings.ToLower(s.q)
	rows, logs := d.cur(s.c)
	switch {
	case strings.HasPrefix(lq, "delete from undo_log"):
		if err := d.step("DELETE undo_log"); err != nil {
			return nil, err
		}
		n := int64(0)
		either := strings.Contains(lq, " or ") // the statement's own connective decides
		for k := range *logs {
			l := &(*logs)[k]
			mb, mx := l.branch == uInt(args[0]), l.xid == uText(args[1])
			if l.present && ((mb && mx) || (either && (mb || mx))) {
				l.present = false
				n++
			}
		}
		return uResult{n}, nil
	case strings.HasPrefix(lq, "insert into undo_log"):
		if err := d.step("INSERT undo_log"); err != nil {
			return nil, err
		}
		for _, l := range *logs {
			if l.present && l.branch == uInt(args[0]) && l.xid == uText(args[1]) {
				return nil, errors.New("Error 1062: Duplicate entry for key 'ux_undo_log'")
			}
		}
		ctxb, _ := args[2].([]byte)
		info, _ := args[3].([]byte)
		*logs = append(*logs, uLog{xid: uText(args[1]), branch: uInt(args[0]), context: ctxb, info: info, status: uInt(args[4]), present: true})
		return uResult{1}, nil
	case strings.HasPrefix(lq, "update "+d.schema.table+" set "):
		if err := d.step("UPDATE " + d.schema.table); err != nil {
			return nil, err
		}
		w := strings.Index(lq, " where ")
		if w < 0 {
			d.bad = s.q
			return nil, errors.New("stub: update without where")
		}
		setNames := uAssignments(s.q[len("update "+d.schema.table+" set "):w], ",")
		whereNames := uAssignments(s.q[w+len(" where "):], " and ")
		if setNames == nil || whereNames == nil || len(setNames)+len(whereNames) != len(args) {
			d.bad = s.q
			return nil, errors.New("stub: cannot interpret " + s.q)
		}
		var setCols, whereCols []int
		for _, n := range setNames {
			setCols = append(setCols, d.schema.col(n))
		}
		for _, n := range whereNames {
			whereCols = append(whereCols, d.schema.col(n))
		}
		for _, c := range append(append([]int{}, setCols...), whereCols...) {
			if c < 0 {
				d.bad = s.q
				return nil, errors.New("stub: unknown column in " + s.q)
			}
		}
		n := int64(0)
		for k := range *rows {
			r := &(*rows)[k]
			if r.present && s.matchPK(*r, whereCols, args[len(setCols):]) {
				for j, c := range setCols {
					r.cells[c] = uStore(d.schema.kind(c), args[j])
				}
				n++
			}
		}
		d.writes++
		return uResult{n}, nil
	case strings.HasPrefix(lq, "delete from "+d.schema.table+" where "):
		if err := d.step("DELETE " + d.schema.table); err != nil {
			return nil, err
		}
		whereNames := uAssignments(s.q[len("delete from "+d.schema.table+" where "):], " and ")
		if whereNames == nil || len(whereNames) != len(args) {
			d.bad = s.q
			return nil, errors.New("stub: cannot interpret " + s.q)
		}
		var whereCols []int
		for _, n := range whereNames {
			c := d.schema.col(n)
			if c < 0 {
				d.bad = s.q
				return nil, errors.New("stub: unknown column in " + s.q)
			}
			whereCols = append(whereCols, c)
		}
		n := int64(0)
		for k := range *rows {
			r := &(*rows)[k]
			if r.present && s.matchPK(*r, whereCols, args) {
				r.present = false
				n++
			}
		}
		d.writes++
		return uResult{n}, nil
	case strings.HasPrefix(lq, "insert into "+d.schema.table+" ("):
		if err := d.step("INSERT " + d.schema.table); err != nil {
			return nil, err
		}
		names := uParenList(s.q, 0)
		if names == nil || len(names) != len(args) {
			d.bad = s.q
			return nil, errors.New("stub: cannot interpret " + s.q)
		}
		nr := uRow{cells: make([]driver.Value, len(d.schema.cols)), present: true}
		for j, n := range names {
			c := d.schema.col(n)
			if c < 0 {
				d.bad = s.q
				return nil, errors.New("stub: unknown column in " + s.q)
			}
			nr.cells[c] = uStore(d.schema.kind(c), args[j])
		}
		for _, r := range *rows {
			if r.present && s.matchPK(r, d.schema.pk, pkVals(nr, d.schema)) {
				return nil, errors.New("Error 1062: Duplicate entry for key 'PRIMARY'")
			}
		}
		*rows = append(*rows, nr)
		d.writes++
		return uResult{1}, nil
	}
	d.bad = s.q
	return nil, errors.New("stub: unexpected statement " + s.q)
}

// uStore: the cell a column of the given kind holds after being assigned v.
func uStore(kind string, v driver.Value) driver.Value {
	if b, ok := v.([]byte); ok {
		v = string(b)
	}
	if kind == "decimal" {
		switch x := v.(type) {
		case float64:
			return strconv.FormatFloat(x, 'f', 2, 64)
		case int64:
			return strconv.FormatInt(x, 10) + ".00"
		}
	}
	return v
}

func pkVals(r uRow, s uSchema) []driver.Value {
	var v []driver.Value
	for _, p := range s.pk {
		v = append(v, r.cells[p])
	}
	return v
}

type uRows struct {
	cols   []string
	data   [][]driver.Value
	pos    int
	scan   []reflect.Type
	dbType []string
}

func (r *uRows) Columns() []string { return r.cols }
func (r *uRows) Close() error      { return nil }
func (r *uRows) Next(dest []driver.Value) error {
	if r.pos >= len(r.data) {
		return io.EOF
	}
	copy(dest, r.data[r.pos])
	r.pos++
	return nil
}
func (r *uRows) ColumnTypeScanType(i int) reflect.Type { return r.scan[i] }
func (r *uRows) ColumnTypeDatabaseTypeName(i int) string {
	if i < len(r.dbType) {
		return r.dbType[i]
	}
	return "BIGINT"
}

func (s *uStmt) Query(args []driver.Value) (driver.Rows, error) {
	d := s.d
	lq := strings.ToLower(s.q)
	rows, logs := d.cur(s.c)
	switch {
	case strings.Contains(lq, "from undo_log") && strings.HasPrefix(lq, "select"):
		if err := d.step("SELECT undo_log"); err != nil {
			return nil, err
		}
		out := &uRows{cols: []string{"branch_id", "xid", "context", "rollback_info", "log_status"}}
		for _, l := range *logs {
			if l.present && l.branch == uInt(args[0]) && l.xid == uText(args[1]) {
				// a predicate on log_status in the statement is honoured
				if strings.Contains(lq, "log_status = 0") && l.status != 0 {
					continue
				}
				if strings.Contains(lq, "log_status = 1") && l.status != 1 {
					continue
				}
				out.data = append(out.data, []driver.Value{l.branch, l.xid, l.context, l.info, l.status})
			}
		}
		return out, nil
	case strings.HasPrefix(lq, "select * from "+d.schema.table+" where "):
		if err := d.step("SELECT " + d.schema.table); err != nil {
			return nil, err
		}
		// (`pk1`,`pk2`) IN ((?,?),(?,?)) FOR UPDATE
		names := uParenList(s.q, len("select * from "+d.schema.table+" where "))
		if names == nil || len(names) == 0 || len(args)%len(names) != 0 {
			d.bad = s.q
			return nil, errors.New("stub: cannot interpret " + s.q)
		}
		var cols []int
		for _, n := range names {
			c := d.schema.col(n)
			if c < 0 {
				d.bad = s.q
				return nil, errors.New("stub: unknown column in " + s.q)
			}
			cols = append(cols, c)
		}
		out := &uRows{cols: d.schema.cols}
		for k := range d.schema.cols {
			out.dbType = append(out.dbType, map[string]string{"": "BIGINT", "nullint": "BIGINT", "varchar": "VARCHAR", "decimal": "DECIMAL", "float": "FLOAT"}[d.schema.kind(k)])
			switch {
			case d.schema.kind(k) == "varchar" || d.schema.kind(k) == "decimal":
				out.scan = append(out.scan, reflect.TypeOf(sql.RawBytes{}))
			case d.schema.kind(k) == "nullint":
				out.scan = append(out.scan, reflect.TypeOf(sql.NullInt64{}))
			case d.schema.kind(k) == "float":
				out.scan = append(out.scan, reflect.TypeOf(float32(0))) // FLOAT NOT NULL
			case d.scanKind == 1 && !d.schema.isPK(k):
				out.scan = append(out.scan, reflect.TypeOf(int64(0))) // BIGINT NOT NULL
			case d.scanKind == 2 && !d.schema.isPK(k):
				out.scan = append(out.scan, reflect.TypeOf(uint64(0))) // BIGINT UNSIGNED NOT NULL
			default:
				out.scan = append(out.scan, reflect.TypeOf(sql.NullInt64{}))
			}
		}
		for _, r := range *rows {
			if !r.present {
				continue
			}
			for t := 0; t+len(cols) <= len(args); t += len(cols) {
				if s.matchPK(r, cols, args[t:t+len(cols)]) {
					row := append([]driver.Value(nil), r.cells...)
					for k := range row {
						// character and decimal data arrive as bytes
						if v, ok := row[k].(string); ok {
							row[k] = []byte(v)
						}
						// a FLOAT column holds (and hands out) single precision
						if v, ok := row[k].(float64); ok && d.schema.kind(k) == "float" {
							row[k] = float32(v)
						}
					}
					if d.scanKind == 2 {
						// an unsigned column: the driver hands out uint64
						for k := range row {
							if v, ok := row[k].(int64); ok && !d.schema.isPK(k) {
								vrt.Assume(v >= 0)
								row[k] = uint64(v)
							}
						}
					}
					out.data = append(out.data, row)
					break
				}
			}
		}
		return out, nil
	}
	d.bad = s.q
	return nil, errors.New("stub: unexpected query " + s.q)
}

// ---- table meta, serializer stub, set-up ----

type uMetaCache struct{ meta *types.TableMeta }

func (c uMetaCache) Init(ctx context.Context, conn *sql.DB) error { return nil }
func (c uMetaCache) Destroy() error                               { return nil }
func (c uMetaCache) GetTableMeta(ctx context.Context, dbName, table string) (*types.TableMeta, error) {
	return c.meta, nil
}

func uTableMeta(s uSchema) *types.TableMeta {
	m := &types.TableMeta{TableName: s.table, Columns: map[string]types.ColumnMeta{}, Indexs: map[string]types.IndexMeta{}, ColumnNames: s.cols}
	var pkCols []types.ColumnMeta
	for k, c := range s.cols {
		cm := types.ColumnMeta{Table: s.table, ColumnName: c, ColumnType: "bigint", DatabaseTypeString: "BIGINT", DatabaseType: int32(types.JDBCTypeBigInt)}
		switch s.kind(k) {
		case "varchar":
			cm.ColumnType, cm.DatabaseTypeString, cm.DatabaseType, cm.IsNullable = "varchar", "VARCHAR", int32(types.JDBCTypeVarchar), 1
		case "nullint":
			cm.IsNullable = 1
		case "decimal":
			cm.ColumnType, cm.DatabaseTypeString, cm.DatabaseType = "decimal", "DECIMAL", int32(types.JDBCTypeDecimal)
		case "float":
			cm.ColumnType, cm.DatabaseTypeString, cm.DatabaseType = "float", "FLOAT", int32(types.JDBCTypeReal)
		}
		m.Columns[c] = cm
		if s.isPK(k) {
			pkCols = append(pkCols, cm)
		}
	}
	m.Indexs["PRIMARY"] = types.IndexMeta{Table: s.table, Name: "PRIMARY", IType: types.IndexTypePrimaryKey, Columns: pkCols}
	return m
}

type uParser struct{ log *undo.BranchUndoLog }

func (uParser) GetName() string                            { return "json" }
func (uParser) GetDefaultContent() []byte                  { return []byte("{}") }
func (uParser) Encode(*undo.BranchUndoLog) ([]byte, error) { return []byte("undo"), nil }
func (p uParser) Decode([]byte) (*undo.BranchUndoLog, error) {
	// a fresh copy per decode, as a real decoder produces
	cp := &undo.BranchUndoLog{Xid: p.log.Xid, BranchID: p.log.BranchID}
	for _, l := range p.log.Logs {
		nl := undo.SQLUndoLog{SQLType: l.SQLType, TableName: l.TableName}
		if l.BeforeImage != nil {
			nl.BeforeImage = uCopyImage(l.BeforeImage)
		}
		if l.AfterImage != nil {
			nl.AfterImage = uCopyImage(l.AfterImage)
		}
		cp.Logs = append(cp.Logs, nl)
	}
	return cp, nil
}

func uCopyImage(im *types.RecordImage) *types.RecordImage {
	c := &types.RecordImage{TableName: im.TableName, SQLType: im.SQLType}
	for _, r := range im.Rows {
		c.Rows = append(c.Rows, types.RowImage{Columns: append([]types.ColumnImage(nil), r.Columns...)})
	}
	return c
}

func uImage(s uSchema, sqlType types.SQLType, rows [][]driver.Value) *types.RecordImage {
	im := &types.RecordImage{TableName: s.table, SQLType: sqlType}
	for _, r := range rows {
		var cols []types.ColumnImage
		for k, c := range s.cols {
			kt := types.IndexTypeNull
			if s.isPK(k) {
				kt = types.IndexTypePrimaryKey
			}
			ct, v := types.JDBCTypeBigInt, r[k]
			switch s.kind(k) {
			case "varchar":
				ct = types.JDBCTypeVarchar
			case "float":
				ct = types.JDBCTypeReal
			case "decimal":
				// the image builder scans DECIMAL into a float64
				ct = types.JDBCTypeDecimal
				if txt, ok := v.(string); ok {
					f, _ := strconv.ParseFloat(txt, 64)
					v = f
				}
			}
			cols = append(cols, types.ColumnImage{KeyType: kt, ColumnName: c, ColumnType: ct, Value: v})
		}
		im.Rows = append(im.Rows, types.RowImage{Columns: cols})
	}
	return im
}

var uSchemas = []uSchema{
	{table: "t", cols: []string{"id", "a", "b"}, pk: []int{0}},
	{table: "t", cols: []string{"id", "uid", "a"}, pk: []int{0, 1}},
}

// uTyped: a table with the column kinds the integer schemas leave out.
var uTyped = uSchema{table: "t", cols: []string{"id", "name", "n"}, pk: []int{0}, kinds: []string{"", "varchar", "nullint"}}
var uTypedDecimal = uSchema{table: "t", cols: []string{"id", "amount", "ratio"}, pk: []int{0}, kinds: []string{"", "decimal", "float"}}

type uWorld struct {
	d      *uDB
	mgr    *ATSourceManager
	xid    string
	branch int64
	parser uParser
	real   bool
}

func uSetup(s uSchema, branchLog *undo.BranchUndoLog, xid string, branchID int64) *uWorld {
	d := &uDB{schema: s, failAt: -1}
	undo.RegisterUndoLogManager(undomysql.NewUndoLogManager())
	undo.UndoConfig.LogSerialization = "json"
	undo.UndoConfig.CompressConfig.Type = "None"
	undo.UndoConfig.DataValidation = true
	undo.UndoConfig.LogTable = ""
	datasource.RegisterTableCache(types.DBTypeMySQL, uMetaCache{uTableMeta(s)})
	w := &uWorld{d: d, xid: xid, branch: branchID, parser: uParser{branchLog}}
	// realparser=1 (default): the undo log goes through the real JSON parser and
	// ColumnImage (un)marshalling; 0: an identity parser (faster, used for deep tiers)
	w.real = vrt.Param("realparser", 1) == 1
	if !w.real {
		vrt.Redirect((*undoparser.UndoLogParserCache).Load, func(_ *undoparser.UndoLogParserCache, name string) (undoparser.UndoLogParser, error) {
			return w.parser, nil
		})
	}
	w.mgr = &ATSourceManager{resourceCache: sync.Map{}, basic: datasource.NewBasicSourceManager(), rmRemoting: rm.GetRMRemotingInstance()}
	res := &DBResource{resourceID: "res", dbType: types.DBTypeMySQL, db: sql.OpenDB(uConnector{d}), dbName: "db"}
	w.mgr.resourceCache.Store("res", res)
	return w
}

func (w *uWorld) addUndoLog() {
	ctx := collection.EncodeMap(map[string]string{"serializerKey": "json", "compressorTypeKey": "None"})
	info := []byte("undo")
	if w.real {
		p, err := undoparser.GetCache().Load("json")
		vrt.Assert(err == nil, "fixture/json-parser-available")
		info, err = p.Encode(w.parser.log)
		vrt.Assert(err == nil, "fixture/undo-log-encodes")
	}
	w.d.logs = append(w.d.logs, uLog{xid: w.xid, branch: w.branch, context: ctx, info: info, status: 0, present: true})
}

func (w *uWorld) rollback() (st branch.BranchStatus, err error, panicked bool) {
	defer func() {
		if r := recover(); r != nil {
			panicked = true
		}
	}()
	st, err = w.mgr.BranchRollback(context.Background(), rm.BranchResource{BranchType: branch.BranchTypeAT, Xid: w.xid, BranchId: w.branch, ResourceId: "res"})
	return
}

func (d *uDB) find(pk []driver.Value) *uRow {
	for k := range d.rows {
		r := &d.rows[k]
		if !r.present {
			continue
		}
		ok := true
		for j, p := range d.schema.pk {
			if r.cells[p] != pk[j] {
				ok = false
			}
		}
		if ok {
			return r
		}
	}
	return nil
}

func uSameCells(a, b []driver.Value) bool {
	for k := range a {
		if a[k] != b[k] {
			return false
		}
	}
	return true
}

func (d *uDB) undoLogPresent(xid string, branchID int64) bool {
	for _, l := range d.logs {
		if l.present && l.xid == xid && l.branch == branchID {
			return true
		}
	}
	return false
}
