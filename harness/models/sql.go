package models

// symsql — the front end of database/sql re-implemented on top of the
// database/sql/driver interfaces, executed by the symbolic engine in place of
// the real package (whose pool, goroutines and reflection cannot be
// interpreted). A harness only ever writes a driver-level stub; natively the
// very same stub runs under the real database/sql.
//
// The engine maps every method (*database/sql.T).M to the function SQL_T_M
// below and implements wrap*/unwrap* (association of the opaque *sql.T handle
// with the model object), convertArg and convertAssign.

import (
	"context"
	"database/sql"
	"database/sql/driver"
	"errors"
	"io"
	"reflect"
)

type mDB struct {
	connector driver.Connector
	free      []*mDC
	closed    bool
	numOpen   int
}

// mDC is one driver connection (driverConn).
type mDC struct {
	db     *mDB
	ci     driver.Conn
	closed bool
	inUse  bool
}

type mConn struct {
	db   *mDB
	dc   *mDC
	done bool
}

type mTx struct {
	db          *mDB
	dc          *mDC
	txi         driver.Tx
	done        bool
	releaseConn bool // whether Commit/Rollback return the connection to the pool
	owner       *mConn
}

type mStmt struct {
	db    *mDB
	query string
	// a statement prepared on a Tx or Conn is bound to that connection; a DB
	// statement takes a connection per use
	dc     *mDC
	si     driver.Stmt
	tx     *mTx
	owner  *mConn // prepared on a pinned Conn
	closed bool
}

type mRows struct {
	dc       *mDC
	release  func()
	rowsi    driver.Rows
	lastcols []driver.Value
	closed   bool
	lasterr  error
}

type mRow struct {
	err  error
	rows *mRows
}

// engine intrinsics (bodies are never executed)
func wrapDB(m *mDB) *sql.DB         { panic("engine intrinsic") }
func unwrapDB(p *sql.DB) *mDB       { panic("engine intrinsic") }
func wrapConn(m *mConn) *sql.Conn   { panic("engine intrinsic") }
func unwrapConn(p *sql.Conn) *mConn { panic("engine intrinsic") }
func wrapTx(m *mTx) *sql.Tx         { panic("engine intrinsic") }
func unwrapTx(p *sql.Tx) *mTx       { panic("engine intrinsic") }
func wrapStmt(m *mStmt) *sql.Stmt   { panic("engine intrinsic") }
func unwrapStmt(p *sql.Stmt) *mStmt { panic("engine intrinsic") }
func wrapRows(m *mRows) *sql.Rows   { panic("engine intrinsic") }
func unwrapRows(p *sql.Rows) *mRows { panic("engine intrinsic") }
func wrapRow(m *mRow) *sql.Row      { panic("engine intrinsic") }
func unwrapRow(p *sql.Row) *mRow    { panic("engine intrinsic") }

// convertArg maps a Go argument to a driver.Value the way
// driver.DefaultParameterConverter does (basic kinds by reflection, Valuer).
func convertArg(v interface{}) (driver.Value, error) { panic("engine intrinsic") }

// convertAssign stores a driver value into a Scan destination.
func convertAssign(dest interface{}, src driver.Value) error { panic("engine intrinsic") }

func SQL_OpenDB(c driver.Connector) *sql.DB {
	return wrapDB(&mDB{connector: c})
}

// ---- pool ----

func (db *mDB) conn(ctx context.Context) (*mDC, error) {
	if db.closed {
		return nil, errors.New("sql: database is closed")
	}
	if err := ctx.Err(); err != nil {
		return nil, err
	}
	for len(db.free) > 0 {
		dc := db.free[len(db.free)-1]
		db.free = db.free[:len(db.free)-1]
		if rs, ok := dc.ci.(driver.SessionResetter); ok {
			if err := rs.ResetSession(ctx); err != nil {
				dc.closeDriver()
				if errors.Is(err, driver.ErrBadConn) {
					continue
				}
				return nil, err
			}
		}
		dc.inUse = true
		return dc, nil
	}
	ci, err := db.connector.Connect(ctx)
	if err != nil {
		return nil, err
	}
	db.numOpen++
	return &mDC{db: db, ci: ci, inUse: true}, nil
}

func (dc *mDC) closeDriver() {
	if !dc.closed {
		dc.closed = true
		dc.db.numOpen--
		dc.ci.Close()
	}
}

// release puts the connection back into the pool (or closes it on ErrBadConn).
func (dc *mDC) release(err error) {
	if !dc.inUse {
		panic("sql: connection returned that was never out")
	}
	dc.inUse = false
	if errors.Is(err, driver.ErrBadConn) || dc.closed || dc.db.closed {
		dc.closeDriver()
		return
	}
	if v, ok := dc.ci.(driver.Validator); ok && !v.IsValid() {
		dc.closeDriver()
		return
	}
	dc.db.free = append(dc.db.free, dc)
}

func namedArgs(args []interface{}) ([]driver.NamedValue, error) {
	nv := make([]driver.NamedValue, len(args))
	for i, a := range args {
		name := ""
		if na, ok := a.(sql.NamedArg); ok {
			name = na.Name
			a = na.Value
		}
		v, err := convertArg(a)
		if err != nil {
			return nil, err
		}
		nv[i] = driver.NamedValue{Name: name, Ordinal: i + 1, Value: v}
	}
	return nv, nil
}

func plainValues(nv []driver.NamedValue) []driver.Value {
	vs := make([]driver.Value, len(nv))
	for i, v := range nv {
		vs[i] = v.Value
	}
	return vs
}

func dcPrepare(ctx context.Context, dc *mDC, query string) (driver.Stmt, error) {
	if p, ok := dc.ci.(driver.ConnPrepareContext); ok {
		return p.PrepareContext(ctx, query)
	}
	return dc.ci.Prepare(query)
}

func stmtExec(ctx context.Context, si driver.Stmt, nv []driver.NamedValue) (driver.Result, error) {
	if want := si.NumInput(); want >= 0 && want != len(nv) {
		return nil, errors.New("sql: expected a different number of arguments")
	}
	if se, ok := si.(driver.StmtExecContext); ok {
		return se.ExecContext(ctx, nv)
	}
	return si.Exec(plainValues(nv))
}

func stmtQuery(ctx context.Context, si driver.Stmt, nv []driver.NamedValue) (driver.Rows, error) {
	if want := si.NumInput(); want >= 0 && want != len(nv) {
		return nil, errors.New("sql: expected a different number of arguments")
	}
	if sq, ok := si.(driver.StmtQueryContext); ok {
		return sq.QueryContext(ctx, nv)
	}
	return si.Query(plainValues(nv))
}

func dcExec(ctx context.Context, dc *mDC, query string, args []interface{}) (sql.Result, error) {
	nv, err := namedArgs(args)
	if err != nil {
		return nil, err
	}
	if ex, ok := dc.ci.(driver.ExecerContext); ok {
		r, err := ex.ExecContext(ctx, query, nv)
		if err != driver.ErrSkip {
			if err != nil {
				return nil, err
			}
			return r, nil
		}
	}
	si, err := dcPrepare(ctx, dc, query)
	if err != nil {
		return nil, err
	}
	defer si.Close()
	r, err := stmtExec(ctx, si, nv)
	if err != nil {
		return nil, err
	}
	return r, nil
}

func dcQuery(ctx context.Context, dc *mDC, release func(), query string, args []interface{}) (*sql.Rows, error) {
	nv, err := namedArgs(args)
	if err != nil {
		release()
		return nil, err
	}
	if q, ok := dc.ci.(driver.QueryerContext); ok {
		ri, err := q.QueryContext(ctx, query, nv)
		if err != driver.ErrSkip {
			if err != nil {
				release()
				return nil, err
			}
			return wrapRows(&mRows{dc: dc, release: release, rowsi: ri}), nil
		}
	}
	si, err := dcPrepare(ctx, dc, query)
	if err != nil {
		release()
		return nil, err
	}
	ri, err := stmtQuery(ctx, si, nv)
	if err != nil {
		si.Close()
		release()
		return nil, err
	}
	return wrapRows(&mRows{dc: dc, release: func() { si.Close(); release() }, rowsi: ri}), nil
}

func dcBegin(ctx context.Context, dc *mDC, opts *sql.TxOptions) (driver.Tx, error) {
	if b, ok := dc.ci.(driver.ConnBeginTx); ok {
		dopts := driver.TxOptions{}
		if opts != nil {
			dopts.Isolation = driver.IsolationLevel(opts.Isolation)
			dopts.ReadOnly = opts.ReadOnly
		}
		return b.BeginTx(ctx, dopts)
	}
	return dc.ci.Begin()
}

// ---- DB ----

func SQL_DB_Conn(p *sql.DB, ctx context.Context) (*sql.Conn, error) {
	db := unwrapDB(p)
	dc, err := db.conn(ctx)
	if err != nil {
		return nil, err
	}
	return wrapConn(&mConn{db: db, dc: dc}), nil
}

func SQL_DB_BeginTx(p *sql.DB, ctx context.Context, opts *sql.TxOptions) (*sql.Tx, error) {
	db := unwrapDB(p)
	dc, err := db.conn(ctx)
	if err != nil {
		return nil, err
	}
	txi, err := dcBegin(ctx, dc, opts)
	if err != nil {
		dc.release(err)
		return nil, err
	}
	return wrapTx(&mTx{db: db, dc: dc, txi: txi, releaseConn: true}), nil
}

func SQL_DB_Begin(p *sql.DB) (*sql.Tx, error) { return SQL_DB_BeginTx(p, context.Background(), nil) }

func SQL_DB_ExecContext(p *sql.DB, ctx context.Context, query string, args ...interface{}) (sql.Result, error) {
	db := unwrapDB(p)
	dc, err := db.conn(ctx)
	if err != nil {
		return nil, err
	}
	r, err := dcExec(ctx, dc, query, args)
	dc.release(err)
	return r, err
}

func SQL_DB_Exec(p *sql.DB, query string, args ...interface{}) (sql.Result, error) {
	return SQL_DB_ExecContext(p, context.Background(), query, args...)
}

func SQL_DB_QueryContext(p *sql.DB, ctx context.Context, query string, args ...interface{}) (*sql.Rows, error) {
	db := unwrapDB(p)
	dc, err := db.conn(ctx)
	if err != nil {
		return nil, err
	}
	return dcQuery(ctx, dc, func() { dc.release(nil) }, query, args)
}

func SQL_DB_Query(p *sql.DB, query string, args ...interface{}) (*sql.Rows, error) {
	return SQL_DB_QueryContext(p, context.Background(), query, args...)
}

func SQL_DB_QueryRowContext(p *sql.DB, ctx context.Context, query string, args ...interface{}) *sql.Row {
	rows, err := SQL_DB_QueryContext(p, ctx, query, args...)
	if err != nil {
		return wrapRow(&mRow{err: err})
	}
	return wrapRow(&mRow{rows: unwrapRows(rows)})
}

func SQL_DB_QueryRow(p *sql.DB, query string, args ...interface{}) *sql.Row {
	return SQL_DB_QueryRowContext(p, context.Background(), query, args...)
}

func SQL_DB_PrepareContext(p *sql.DB, ctx context.Context, query string) (*sql.Stmt, error) {
	db := unwrapDB(p)
	dc, err := db.conn(ctx)
	if err != nil {
		return nil, err
	}
	si, err := dcPrepare(ctx, dc, query)
	if err != nil {
		dc.release(err)
		return nil, err
	}
	// model: a DB statement keeps its connection until closed
	return wrapStmt(&mStmt{db: db, query: query, dc: dc, si: si}), nil
}

func SQL_DB_Prepare(p *sql.DB, query string) (*sql.Stmt, error) {
	return SQL_DB_PrepareContext(p, context.Background(), query)
}

func SQL_DB_Close(p *sql.DB) error {
	db := unwrapDB(p)
	db.closed = true
	for _, dc := range db.free {
		dc.closeDriver()
	}
	db.free = nil
	return nil
}

func SQL_DB_PingContext(p *sql.DB, ctx context.Context) error {
	db := unwrapDB(p)
	dc, err := db.conn(ctx)
	if err != nil {
		return err
	}
	if pg, ok := dc.ci.(driver.Pinger); ok {
		err = pg.Ping(ctx)
	}
	dc.release(err)
	return err
}

func SQL_DB_Ping(p *sql.DB) error { return SQL_DB_PingContext(p, context.Background()) }

func SQL_DB_SetMaxOpenConns(p *sql.DB, n int) {}
func SQL_DB_SetMaxIdleConns(p *sql.DB, n int) {}
func SQL_DB_Driver(p *sql.DB) driver.Driver   { return unwrapDB(p).connector.Driver() }
func SQL_DB_Stats(p *sql.DB) sql.DBStats {
	db := unwrapDB(p)
	inUse := db.numOpen - len(db.free)
	return sql.DBStats{OpenConnections: db.numOpen, InUse: inUse, Idle: len(db.free)}
}

// ---- Conn ----

func (c *mConn) grab() (*mDC, error) {
	if c.done {
		return nil, sql.ErrConnDone
	}
	return c.dc, nil
}

// after mirrors Conn.closemuRUnlockCondReleaseConn: a driver.ErrBadConn closes the pinned connection.
func (c *mConn) after(err error) {
	if err != nil && errors.Is(err, driver.ErrBadConn) && !c.done {
		c.done = true
		c.dc.release(err)
	}
}

func SQL_Conn_BeginTx(p *sql.Conn, ctx context.Context, opts *sql.TxOptions) (*sql.Tx, error) {
	c := unwrapConn(p)
	dc, err := c.grab()
	if err != nil {
		return nil, err
	}
	txi, err := dcBegin(ctx, dc, opts)
	if err != nil {
		c.after(err)
		return nil, err
	}
	return wrapTx(&mTx{db: c.db, dc: dc, txi: txi, owner: c}), nil
}

func SQL_Conn_ExecContext(p *sql.Conn, ctx context.Context, query string, args ...interface{}) (sql.Result, error) {
	c := unwrapConn(p)
	dc, err := c.grab()
	if err != nil {
		return nil, err
	}
	r, err := dcExec(ctx, dc, query, args)
	c.after(err)
	return r, err
}

func SQL_Conn_QueryContext(p *sql.Conn, ctx context.Context, query string, args ...interface{}) (*sql.Rows, error) {
	c := unwrapConn(p)
	dc, err := c.grab()
	if err != nil {
		return nil, err
	}
	r, err := dcQuery(ctx, dc, func() {}, query, args)
	c.after(err)
	return r, err
}

func SQL_Conn_QueryRowContext(p *sql.Conn, ctx context.Context, query string, args ...interface{}) *sql.Row {
	rows, err := SQL_Conn_QueryContext(p, ctx, query, args...)
	if err != nil {
		return wrapRow(&mRow{err: err})
	}
	return wrapRow(&mRow{rows: unwrapRows(rows)})
}

func SQL_Conn_PrepareContext(p *sql.Conn, ctx context.Context, query string) (*sql.Stmt, error) {
	c := unwrapConn(p)
	dc, err := c.grab()
	if err != nil {
		return nil, err
	}
	si, err := dcPrepare(ctx, dc, query)
	if err != nil {
		c.after(err)
		return nil, err
	}
	return wrapStmt(&mStmt{db: c.db, query: query, dc: dc, si: si, tx: &mTx{}, owner: c}), nil
}

func SQL_Conn_Close(p *sql.Conn) error {
	c := unwrapConn(p)
	if c.done {
		return sql.ErrConnDone
	}
	c.done = true
	c.dc.release(nil)
	return nil
}

func SQL_Conn_Raw(p *sql.Conn, f func(driverConn interface{}) error) error {
	dc, err := unwrapConn(p).grab()
	if err != nil {
		return err
	}
	return f(dc.ci)
}

func SQL_Conn_PingContext(p *sql.Conn, ctx context.Context) error {
	dc, err := unwrapConn(p).grab()
	if err != nil {
		return err
	}
	if pg, ok := dc.ci.(driver.Pinger); ok {
		return pg.Ping(ctx)
	}
	return nil
}

// ---- Tx ----

func (tx *mTx) finish(err error) {
	tx.done = true
	if tx.releaseConn {
		tx.dc.release(err)
	}
}

func SQL_Tx_Commit(p *sql.Tx) error {
	tx := unwrapTx(p)
	if tx.done {
		return sql.ErrTxDone
	}
	err := tx.txi.Commit()
	if !errors.Is(err, driver.ErrBadConn) {
		// like the real package: the Tx is done whatever Commit answered
	}
	tx.finish(err)
	return err
}

func SQL_Tx_Rollback(p *sql.Tx) error {
	tx := unwrapTx(p)
	if tx.done {
		return sql.ErrTxDone
	}
	err := tx.txi.Rollback()
	tx.finish(err)
	return err
}

func (tx *mTx) grab() (*mDC, error) {
	if tx.done {
		return nil, sql.ErrTxDone
	}
	return tx.dc, nil
}

func SQL_Tx_ExecContext(p *sql.Tx, ctx context.Context, query string, args ...interface{}) (sql.Result, error) {
	dc, err := unwrapTx(p).grab()
	if err != nil {
		return nil, err
	}
	return dcExec(ctx, dc, query, args)
}

func SQL_Tx_Exec(p *sql.Tx, query string, args ...interface{}) (sql.Result, error) {
	return SQL_Tx_ExecContext(p, context.Background(), query, args...)
}

func SQL_Tx_QueryContext(p *sql.Tx, ctx context.Context, query string, args ...interface{}) (*sql.Rows, error) {
	dc, err := unwrapTx(p).grab()
	if err != nil {
		return nil, err
	}
	return dcQuery(ctx, dc, func() {}, query, args)
}

func SQL_Tx_Query(p *sql.Tx, query string, args ...interface{}) (*sql.Rows, error) {
	return SQL_Tx_QueryContext(p, context.Background(), query, args...)
}

func SQL_Tx_QueryRowContext(p *sql.Tx, ctx context.Context, query string, args ...interface{}) *sql.Row {
	rows, err := SQL_Tx_QueryContext(p, ctx, query, args...)
	if err != nil {
		return wrapRow(&mRow{err: err})
	}
	return wrapRow(&mRow{rows: unwrapRows(rows)})
}

func SQL_Tx_QueryRow(p *sql.Tx, query string, args ...interface{}) *sql.Row {
	return SQL_Tx_QueryRowContext(p, context.Background(), query, args...)
}

func SQL_Tx_PrepareContext(p *sql.Tx, ctx context.Context, query string) (*sql.Stmt, error) {
	tx := unwrapTx(p)
	dc, err := tx.grab()
	if err != nil {
		return nil, err
	}
	si, err := dcPrepare(ctx, dc, query)
	if err != nil {
		return nil, err
	}
	return wrapStmt(&mStmt{db: tx.db, query: query, dc: dc, si: si, tx: tx}), nil
}

func SQL_Tx_Prepare(p *sql.Tx, query string) (*sql.Stmt, error) {
	return SQL_Tx_PrepareContext(p, context.Background(), query)
}

// ---- Stmt ----

func (s *mStmt) check() error {
	if s.closed {
		return errors.New("sql: statement is closed")
	}
	if s.tx != nil && s.tx.txi != nil && s.tx.done {
		return sql.ErrTxDone
	}
	if s.owner != nil && s.owner.done {
		return sql.ErrConnDone
	}
	return nil
}

func SQL_Stmt_ExecContext(p *sql.Stmt, ctx context.Context, args ...interface{}) (sql.Result, error) {
	s := unwrapStmt(p)
	if err := s.check(); err != nil {
		return nil, err
	}
	nv, err := namedArgs(args)
	if err != nil {
		return nil, err
	}
	r, err := stmtExec(ctx, s.si, nv)
	if err != nil {
		if s.owner != nil {
			s.owner.after(err)
		}
		return nil, err
	}
	return r, nil
}

func SQL_Stmt_Exec(p *sql.Stmt, args ...interface{}) (sql.Result, error) {
	return SQL_Stmt_ExecContext(p, context.Background(), args...)
}

func SQL_Stmt_QueryContext(p *sql.Stmt, ctx context.Context, args ...interface{}) (*sql.Rows, error) {
	s := unwrapStmt(p)
	if err := s.check(); err != nil {
		return nil, err
	}
	nv, err := namedArgs(args)
	if err != nil {
		return nil, err
	}
	ri, err := stmtQuery(ctx, s.si, nv)
	if err != nil {
		if s.owner != nil {
			s.owner.after(err)
		}
		return nil, err
	}
	return wrapRows(&mRows{dc: s.dc, release: func() {}, rowsi: ri}), nil
}

func SQL_Stmt_Query(p *sql.Stmt, args ...interface{}) (*sql.Rows, error) {
	return SQL_Stmt_QueryContext(p, context.Background(), args...)
}

func SQL_Stmt_QueryRowContext(p *sql.Stmt, ctx context.Context, args ...interface{}) *sql.Row {
	rows, err := SQL_Stmt_QueryContext(p, ctx, args...)
	if err != nil {
		return wrapRow(&mRow{err: err})
	}
	return wrapRow(&mRow{rows: unwrapRows(rows)})
}

func SQL_Stmt_QueryRow(p *sql.Stmt, args ...interface{}) *sql.Row {
	return SQL_Stmt_QueryRowContext(p, context.Background(), args...)
}

func SQL_Stmt_Close(p *sql.Stmt) error {
	if p == nil {
		return nil
	}
	s := unwrapStmt(p)
	if s.closed {
		return nil
	}
	s.closed = true
	err := s.si.Close()
	if s.tx == nil {
		s.dc.release(nil)
	}
	return err
}

// ---- Rows / Row ----

func SQL_Rows_Next(p *sql.Rows) bool {
	r := unwrapRows(p)
	if r.closed {
		return false
	}
	if r.lastcols == nil {
		r.lastcols = make([]driver.Value, len(r.rowsi.Columns()))
	}
	err := r.rowsi.Next(r.lastcols)
	if err != nil {
		if err != io.EOF {
			r.lasterr = err
		}
		SQL_Rows_Close(p)
		r.lastcols = nil
		return false
	}
	return true
}

func SQL_Rows_Scan(p *sql.Rows, dest ...interface{}) error {
	r := unwrapRows(p)
	if r.closed {
		if r.lasterr != nil {
			return r.lasterr
		}
		return errors.New("sql: Rows are closed")
	}
	if r.lastcols == nil {
		return errors.New("sql: Scan called without calling Next")
	}
	if len(dest) != len(r.lastcols) {
		return errors.New("sql: expected a different number of destination arguments in Scan")
	}
	for i, sv := range r.lastcols {
		if err := convertAssign(dest[i], sv); err != nil {
			return errors.New("sql: Scan error on a column: " + err.Error())
		}
	}
	return nil
}

func SQL_Rows_Close(p *sql.Rows) error {
	r := unwrapRows(p)
	if r.closed {
		return nil
	}
	r.closed = true
	err := r.rowsi.Close()
	if r.release != nil {
		r.release()
	}
	return err
}

func SQL_Rows_Err(p *sql.Rows) error { return unwrapRows(p).lasterr }

func SQL_Rows_Columns(p *sql.Rows) ([]string, error) {
	r := unwrapRows(p)
	if r.closed {
		return nil, errors.New("sql: Rows are closed")
	}
	return r.rowsi.Columns(), nil
}

func SQL_Rows_NextResultSet(p *sql.Rows) bool { return false }

type mColumnType struct {
	name     string
	scanType reflect.Type
	dbType   string
}

func wrapColumnType(m *mColumnType) *sql.ColumnType   { panic("engine intrinsic") }
func unwrapColumnType(p *sql.ColumnType) *mColumnType { panic("engine intrinsic") }

func SQL_Rows_ColumnTypes(p *sql.Rows) ([]*sql.ColumnType, error) {
	r := unwrapRows(p)
	if r.closed {
		return nil, errors.New("sql: Rows are closed")
	}
	names := r.rowsi.Columns()
	out := make([]*sql.ColumnType, len(names))
	for i, n := range names {
		m := &mColumnType{name: n}
		if st, ok := r.rowsi.(driver.RowsColumnTypeScanType); ok {
			m.scanType = st.ColumnTypeScanType(i)
		} else {
			m.scanType = reflect.TypeOf(new(interface{})).Elem()
		}
		if dt, ok := r.rowsi.(driver.RowsColumnTypeDatabaseTypeName); ok {
			m.dbType = dt.ColumnTypeDatabaseTypeName(i)
		}
		out[i] = wrapColumnType(m)
	}
	return out, nil
}

func SQL_ColumnType_Name(p *sql.ColumnType) string             { return unwrapColumnType(p).name }
func SQL_ColumnType_ScanType(p *sql.ColumnType) reflect.Type   { return unwrapColumnType(p).scanType }
func SQL_ColumnType_DatabaseTypeName(p *sql.ColumnType) string { return unwrapColumnType(p).dbType }
func SQL_ColumnType_Nullable(p *sql.ColumnType) (nullable, ok bool) {
	return false, false
}

func SQL_Row_Scan(p *sql.Row, dest ...interface{}) error {
	r := unwrapRow(p)
	if r.err != nil {
		return r.err
	}
	rp := wrapRowsOf(r.rows)
	defer SQL_Rows_Close(rp)
	if !SQL_Rows_Next(rp) {
		if err := r.rows.lasterr; err != nil {
			return err
		}
		return sql.ErrNoRows
	}
	if err := SQL_Rows_Scan(rp, dest...); err != nil {
		return err
	}
	return SQL_Rows_Close(rp)
}

func SQL_Row_Err(p *sql.Row) error { return unwrapRow(p).err }

// wrapRowsOf returns a handle for an existing model object.
func wrapRowsOf(m *mRows) *sql.Rows { return wrapRows(m) }
