// Package models holds Go-level models of standard-library pieces that the
// symbolic engine cannot interpret from source (reflection / unsafe inside).
// It is only ever executed by the engine, never linked into a native replay.
package models

import (
	"context"
	"time"
)

// ---- fmt.Errorf / errors with %w ----

type FmtError struct {
	Msg     string
	Wrapped []error
}

func (e *FmtError) Error() string { return e.Msg }

func (e *FmtError) Unwrap() error {
	if len(e.Wrapped) == 0 {
		return nil
	}
	return e.Wrapped[0]
}

func NewFmtError(msg string, wrapped []error) error {
	return &FmtError{Msg: msg, Wrapped: wrapped}
}

// ---- context.WithValue ----

type valueCtx struct {
	context.Context
	key, val interface{}
}

func (c *valueCtx) Value(key interface{}) interface{} {
	if c.key == key {
		return c.val
	}
	return c.Context.Value(key)
}

func (c *valueCtx) Deadline() (time.Time, bool) { return c.Context.Deadline() }

func ContextWithValue(parent context.Context, key, val interface{}) context.Context {
	if parent == nil {
		panic("cannot create context from nil parent")
	}
	if key == nil {
		panic("nil key")
	}
	return &valueCtx{parent, key, val}
}
