package bytes

import "seata.apache.org/seata-go/pkg/zzverif/vrt"

func VerifSelfTest1() {
	x := vrt.Uint16("x")
	b := UInt16ToBytes(x)
	y := Byte2UInt16(b)
	vrt.Assert(x == y, "rt16")
	if x > 1000 {
		vrt.Reach("big")
		vrt.Assert(b[0] >= 3, "hi>=3")
	} else {
		vrt.Assert(b[0] <= 3, "hi<=3")
		vrt.Assert(b[0] < 3, "hi<3(should fail)")
	}
}
