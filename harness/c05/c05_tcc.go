package tcc

// C05 — TCC branches are registered before try and dispatched faithfully in
// phase two. Real NewTCCServiceProxy / Prepare / registeBranch /
// initActionContext / getActionContextParameters (reflection over the
// parameter struct), RMRemoting.BranchRegister, the client handler's OnMessage
// with the real branch commit / rollback processors, TCCResourceManager.
// BranchCommit / BranchRollback / getBusinessActionContext and TwoPhaseAction's
// reflective calls; the coordinator is a script, the application data travels
// as the JSON the client produced (encoding/json model, see DESIGN.md).

import (
	"context"
	"errors"
	"time"

	gostnet "github.com/dubbogo/gost/net"

	"seata.apache.org/seata-go/pkg/protocol/branch"
	"seata.apache.org/seata-go/pkg/protocol/message"
	"seata.apache.org/seata-go/pkg/remoting/getty"
	"seata.apache.org/seata-go/pkg/remoting/processor/client"
	"seata.apache.org/seata-go/pkg/rm"
	"seata.apache.org/seata-go/pkg/tm"
	"seata.apache.org/seata-go/pkg/zzverif/vrt"
)

type c05Nested struct {
	K int32  `json:"k"`
	L string `json:"l"`
}

// every field shape the quantifier names
type c05Params struct {
	A       int64     `tccParam:"a"`
	S       string    `tccParam:"s"`
	B       bool      `tccParam:"b"`
	Nested  c05Nested `tccParam:"n"`
	Ptr     *int32    `tccParam:"p"`
	Untag   int64
	Dash    int64 `tccParam:"-"`
	Empty   int64 `tccParam:""`
	hidden  int64 `tccParam:"h"`
	Context *tm.BusinessActionContext
}

type c05Private struct {
	ctx *tm.BusinessActionContext
	A   int64 `tccParam:"a"`
}

type c05Call struct {
	what   string // try | commit | rollback
	action string
	xid    string
	branch int64
	bac    *tm.BusinessActionContext
	params interface{}
}

type c05World struct {
	log      []string // order of coordinator-visible and user-visible events
	calls    []c05Call
	regs     []message.BranchRegisterRequest
	replies  []interface{}
	replyIDs []int32
	regMode  int // 0 ok, 1 failed result code, 2 transport error, 3 empty reply
	branchID int64
	userErr  bool // the user method of this delivery fails
	userNo   bool // ... or answers (false, nil): no error, so it counts as done
}

var c05UserErr = errors.New("user method failed")

type c05Service struct {
	name string
	w    *c05World
}

func (s *c05Service) GetActionName() string { return s.name }
func (s *c05Service) Prepare(ctx context.Context, params interface{}) (bool, error) {
	s.w.log = append(s.w.log, "try:"+s.name)
	s.w.calls = append(s.w.calls, c05Call{what: "try", action: s.name, xid: tm.GetXID(ctx), bac: tm.GetBusinessActionContext(ctx), params: params})
	if s.w.userErr {
		return false, c05UserErr
	}
	return true, nil
}
func (s *c05Service) Commit(ctx context.Context, bac *tm.BusinessActionContext) (bool, error) {
	s.w.calls = append(s.w.calls, c05Call{what: "commit", action: s.name, xid: tm.GetXID(ctx), bac: bac})
	if bac != nil {
		s.w.calls[len(s.w.calls)-1].branch = bac.BranchId
	}
	if s.w.userErr {
		return false, c05UserErr
	}
	return !s.w.userNo, nil
}
func (s *c05Service) Rollback(ctx context.Context, bac *tm.BusinessActionContext) (bool, error) {
	s.w.calls = append(s.w.calls, c05Call{what: "rollback", action: s.name, xid: tm.GetXID(ctx), bac: bac})
	if bac != nil {
		s.w.calls[len(s.w.calls)-1].branch = bac.BranchId
	}
	if s.w.userErr {
		return false, c05UserErr
	}
	return !s.w.userNo, nil
}

func c05Setup() (*c05World, *TCCServiceProxy, *TCCServiceProxy) {
	w := &c05World{}
	vrt.Redirect(gostnet.GetLocalIP, func() (string, error) { return "10.0.0.9", nil })
	vrt.Redirect((*getty.GettyRemotingClient).SendSyncRequest, func(_ *getty.GettyRemotingClient, msg interface{}) (interface{}, error) {
		switch m := msg.(type) {
		case message.RegisterRMRequest:
			w.log = append(w.log, "register-rm:"+m.ResourceIds)
			return message.RegisterRMResponse{AbstractIdentifyResponse: message.AbstractIdentifyResponse{Identified: true}}, nil
		case message.BranchRegisterRequest:
			w.log = append(w.log, "register-branch:"+m.ResourceId)
			w.regs = append(w.regs, m)
			switch w.regMode {
			case 1:
				return message.BranchRegisterResponse{AbstractTransactionResponse: message.AbstractTransactionResponse{AbstractResultMessage: message.AbstractResultMessage{ResultCode: message.ResultCodeFailed, Msg: "refused"}}}, nil
			case 2:
				return nil, errors.New("transport error")
			case 3:
				return nil, nil
			}
			return message.BranchRegisterResponse{AbstractTransactionResponse: message.AbstractTransactionResponse{AbstractResultMessage: message.AbstractResultMessage{ResultCode: message.ResultCodeSuccess}}, BranchId: w.branchID}, nil
		}
		return nil, errors.New("c05: unexpected request")
	})
	vrt.Redirect((*getty.GettyRemotingClient).SendAsyncResponse, func(_ *getty.GettyRemotingClient, id int32, msg interface{}) error {
		w.replies = append(w.replies, msg)
		w.replyIDs = append(w.replyIDs, id)
		return nil
	})
	InitTCC()
	client.RegisterProcessor()
	pa, errA := NewTCCServiceProxy(&c05Service{name: "actionA", w: w})
	pb, errB := NewTCCServiceProxy(&c05Service{name: "actionB", w: w})
	vrt.Assert(errA == nil && errB == nil && pa != nil && pb != nil, "c05/services-registered")
	return w, pa, pb
}

func c05Ascii(s string) bool {
	for i := 0; i < len(s); i++ {
		if s[i] >= 0x80 {
			return false
		}
	}
	return true
}

// c05ContextCarries checks that ac (as the user's phase-two method sees it) is
// JSON-equivalent to the tagged parameters p.
func c05ContextCarries(ac map[string]interface{}, p *c05Params, tag string) {
	a, okA := ac["a"].(float64)
	vrt.Assert(okA && a == float64(p.A), "c05/context-number-is-the-nearest-json-number/"+tag)
	vrt.Assert(okA && a < 9.3e18 && a > -9.3e18 && int64(a) == p.A, "c05/context-integer-parameter-is-exact/"+tag)
	s, okS := ac["s"].(string)
	vrt.Assert(okS && s == p.S, "c05/context-string-parameter/"+tag)
	b, okB := ac["b"].(bool)
	vrt.Assert(okB && b == p.B, "c05/context-bool-parameter/"+tag)
	n, okN := ac["n"].(map[string]interface{})
	vrt.Assert(okN, "c05/context-nested-parameter-is-an-object/"+tag)
	if okN {
		k, okK := n["k"].(float64)
		l, okL := n["l"].(string)
		vrt.Assert(okK && int32(k) == p.Nested.K && okL && l == p.Nested.L, "c05/context-nested-parameter/"+tag)
	}
	if p.Ptr == nil {
		v, present := ac["p"]
		vrt.Assert(present && v == nil, "c05/context-nil-pointer-parameter/"+tag)
	} else {
		pv, okP := ac["p"].(float64)
		vrt.Assert(okP && int32(pv) == *p.Ptr, "c05/context-pointer-parameter/"+tag)
	}
	_, hasUntag := ac["Untag"]
	_, hasDash := ac["-"]
	_, hasEmpty := ac[""]
	_, hasHidden := ac["h"]
	vrt.Assert(!hasUntag && !hasDash && !hasEmpty && !hasHidden, "c05/context-has-no-untagged-or-hidden-fields/"+tag)
	name, okName := ac["actionName"].(string)
	vrt.Assert(okName && name == "actionA", "c05/context-names-the-action/"+tag)
	// the registered application data is the tagged parameters (a, s, b, n, p) plus the six
	// framework entries - nothing the caller's own context held before
	_, hasPre := ac["pre"]
	vrt.Assert(!hasPre && len(ac) == 11, "c05/context-holds-exactly-the-tagged-parameters/"+tag)
}

// VerifC05Tcc: prepare (inside or outside a global transaction, registration
// succeeding or failing), then phase-two requests from the coordinator.
func VerifC05Tcc() {
	w, pa, _ := c05Setup()
	// parameters
	p := &c05Params{A: vrt.Int64("p.a"), S: vrt.String("p.s", 2), B: vrt.Bool("p.b"), Nested: c05Nested{K: vrt.Int32("p.n.k"), L: "l"}, Untag: 7, Dash: 8, Empty: 9, hidden: 10}
	vrt.Assume(c05Ascii(p.S)) // JSON cannot carry invalid UTF-8; binary data in strings is outside the claim
	if vrt.Bool("p.ptr.set") {
		v := vrt.Int32("p.ptr")
		p.Ptr = &v
	}
	var params interface{} = p
	shape := vrt.Choice("params.shape", vrt.Param("shapes", 8))
	switch shape {
	case 1:
		params = *p // by value
	case 2:
		params = nil
	case 3:
		p.Context = &tm.BusinessActionContext{ActionContext: map[string]interface{}{"pre": "set"}}
	case 4:
		params = &c05Private{A: p.A} // an unexported action-context field
	case 5:
		params = tm.BusinessActionContext{ActionContext: map[string]interface{}{"pre": "set"}}
	case 6:
		params = int64(5) // not a struct
	case 7:
		v := int64(5)
		params = &v // pointer to something that is not a struct
	}
	inGtx := vrt.Bool("in.global.tx")
	xid := vrt.String("xid", 2)
	vrt.Assume(xid[0] != 0 && xid[1] != 0)
	ctx := tm.InitSeataContext(context.Background())
	if inGtx {
		tm.SetXID(ctx, xid)
	}
	w.regMode = vrt.Choice("register", 4)
	w.branchID = vrt.Int64("branch.id")
	w.userErr = vrt.Bool("try.fails")
	nlog := len(w.log)
	_, err := pa.Prepare(ctx, params)
	evs := w.log[nlog:]

	if !inGtx {
		vrt.Reach("c05/outside-global-tx")
		vrt.Assert(len(w.regs) == 0, "c05/no-registration-outside-a-global-transaction")
		vrt.Assert(len(evs) == 1 && evs[0] == "try:actionA", "c05/try-runs-outside-a-global-transaction")
		return
	}
	vrt.Assert(len(w.regs) == 1, "c05/exactly-one-branch-registration")
	if len(w.regs) != 1 {
		return
	}
	reg := w.regs[0]
	vrt.Assert(reg.BranchType == branch.BranchTypeTCC && reg.ResourceId == "actionA" && reg.Xid == xid, "c05/registration-names-tcc-branch-action-and-xid")
	vrt.Assert(len(evs) >= 1 && evs[0] == "register-branch:actionA", "c05/registration-precedes-try")
	if w.regMode != 0 {
		vrt.Reach("c05/registration-failed")
		vrt.Assert(err != nil, "c05/registration-failure-is-returned")
		vrt.Assert(len(evs) == 1, "c05/try-does-not-run-when-registration-fails")
		return
	}
	vrt.Reach("c05/registered")
	vrt.Assert(len(evs) == 2 && evs[1] == "try:actionA", "c05/try-runs-once-after-registration")
	vrt.Assert((err != nil) == w.userErr, "c05/prepare-returns-the-try-outcome")
	if len(w.calls) == 1 {
		bac := w.calls[0].bac
		vrt.Assert(bac != nil && bac.BranchId == w.branchID && bac.Xid == xid && bac.ActionName == "actionA", "c05/try-sees-the-registered-branch")
	}

	// the same action is prepared once more in the same global transaction (a second
	// account, say): it is a branch of its own
	if vrt.Param("again", 1) == 1 && vrt.Bool("same.action.prepared.again") {
		nreg, nlog2 := len(w.regs), len(w.log)
		_, _ = pa.Prepare(ctx, params)
		evs2 := w.log[nlog2:]
		vrt.Reach("c05/prepared-again")
		vrt.Assert(len(w.regs) == nreg+1, "c05/second-prepare-registers-its-own-branch")
		vrt.Assert(len(evs2) >= 1 && evs2[0] == "register-branch:actionA", "c05/second-prepare-registration-precedes-try")
		return
	}

	// ---- phase two ----
	tagged := shape == 0 || shape == 1 || shape == 3
	for k := 0; k < vrt.Param("deliveries", 2); k++ {
		tag := []string{"first", "second"}[k]
		rollback := vrt.Bool(tag + ".rollback")
		// the second delivery (thorough tier) repeats / crosses the first one: same or other action,
		// registered or empty data
		nres, ndata := 3, 4
		if k > 0 {
			nres, ndata = 2, 2
		}
		resource := []string{"actionA", "actionB", "nobody"}[vrt.Choice(tag+".resource", nres)]
		var data []byte
		dataKind := vrt.Choice(tag+".data", ndata)
		switch dataKind {
		case 0:
			data = reg.ApplicationData // what the coordinator stored at registration
		case 1:
			data = nil
		case 2:
			data = []byte(`{"actionContext":{"a":1`)
		case 3:
			data = []byte(`{"actionContext":5}`)
		}
		reqXid, reqBranch := vrt.String(tag+".xid", 2), vrt.Int64(tag+".branch")
		w.userErr = vrt.Bool(tag + ".user.fails")
		w.userNo = !w.userErr && vrt.Bool(tag+".user.answers.false")
		id := vrt.Int32(tag + ".msgid")
		var body interface{}
		if rollback {
			body = message.BranchRollbackRequest{AbstractBranchEndRequest: message.AbstractBranchEndRequest{Xid: reqXid, BranchId: reqBranch, BranchType: branch.BranchTypeTCC, ResourceId: resource, ApplicationData: data}}
		} else {
			body = message.BranchCommitRequest{AbstractBranchEndRequest: message.AbstractBranchEndRequest{Xid: reqXid, BranchId: reqBranch, BranchType: branch.BranchTypeTCC, ResourceId: resource, ApplicationData: data}}
		}
		ncalls, nrep := len(w.calls), len(w.replies)
		panicked := false
		func() {
			defer func() {
				if recover() != nil {
					panicked = true
				}
			}()
			getty.GetGettyClientHandlerInstance().OnMessage(nil, message.RpcMessage{ID: id, Type: message.GettyRequestTypeRequestSync, Body: body})
		}()
		vrt.Reach("c05/phase-two/" + tag)
		wellFormed := dataKind <= 1
		if wellFormed {
			vrt.Assert(!panicked, "c05/phase-two-no-panic/"+tag)
		} else {
			vrt.Reach("c05/malformed-application-data")
			vrt.Assert(!panicked, "c05/malformed-application-data-does-not-panic/"+tag)
		}
		if panicked {
			return
		}
		if resource == "nobody" {
			vrt.Reach("c05/unknown-resource")
			vrt.Assert(len(w.calls) == ncalls, "c05/unknown-resource-runs-no-user-code/"+tag)
			for _, r := range w.replies[nrep:] {
				vrt.Assert(c05Status(r) != branch.BranchStatusPhasetwoCommitted && c05Status(r) != branch.BranchStatusPhasetwoRollbacked, "c05/unknown-resource-is-not-reported-done/"+tag)
			}
			continue
		}
		if !wellFormed {
			// nothing to dispatch faithfully; whatever happens must not be reported as done without user code
			if len(w.calls) == ncalls {
				for _, r := range w.replies[nrep:] {
					vrt.Assert(c05Status(r) != branch.BranchStatusPhasetwoCommitted && c05Status(r) != branch.BranchStatusPhasetwoRollbacked, "c05/undispatched-request-is-not-reported-done/"+tag)
				}
			}
			continue
		}
		vrt.Assert(len(w.calls) == ncalls+1, "c05/user-method-invoked-exactly-once/"+tag)
		if len(w.calls) != ncalls+1 {
			return
		}
		c := w.calls[ncalls]
		want := "commit"
		if rollback {
			want = "rollback"
		}
		vrt.Assert(c.what == want && c.action == resource, "c05/dispatched-to-the-matching-action-and-phase/"+tag)
		vrt.Assert(c.bac != nil && c.xid == reqXid && c.bac.Xid == reqXid && c.branch == reqBranch && c.bac.ActionName == resource, "c05/user-method-sees-request-xid-and-branch/"+tag)
		if c.bac != nil && dataKind == 0 && tagged && resource == "actionA" {
			vrt.Reach("c05/context-roundtrip")
			c05ContextCarries(c.bac.ActionContext, p, tag)
		}
		if c.bac != nil && dataKind == 1 {
			vrt.Assert(len(c.bac.ActionContext) == 0, "c05/empty-application-data-gives-empty-context/"+tag)
		}
		// the answer
		reps := w.replies[nrep:]
		vrt.Assert(len(reps) <= 1, "c05/at-most-one-answer/"+tag)
		if w.userErr {
			vrt.Reach("c05/user-method-failed")
			for _, r := range reps {
				st := c05Status(r)
				vrt.Assert(st == branch.BranchStatusPhasetwoCommitFailedRetryable || st == branch.BranchStatusPhasetwoRollbackFailedRetryable, "c05/failed-user-method-is-reported-retryable/"+tag)
			}
		} else {
			vrt.Assert(len(reps) == 1, "c05/successful-user-method-is-answered/"+tag)
			if len(reps) == 1 {
				st := c05Status(reps[0])
				if rollback {
					vrt.Assert(st == branch.BranchStatusPhasetwoRollbacked, "c05/successful-rollback-is-reported-rollbacked/"+tag)
				} else {
					vrt.Assert(st == branch.BranchStatusPhasetwoCommitted, "c05/successful-commit-is-reported-committed/"+tag)
				}
				vrt.Assert(w.replyIDs[nrep] == id, "c05/answer-carries-the-request-id/"+tag)
			}
		}
	}
	_ = time.Now
	_ = rm.GetRmCacheInstance
}

func c05Status(r interface{}) branch.BranchStatus {
	switch x := r.(type) {
	case message.BranchCommitResponse:
		return x.BranchStatus
	case message.BranchRollbackResponse:
		return x.BranchStatus
	}
	return branch.BranchStatusUnknown
}
