package base

// C08 — undo-log encoding is lossless under every serializer and compressor
// setting. Write side: the real FlushUndoLog (context encoding, serializer
// selection, JSON parser, ColumnImage.MarshalJSON) into a capturing driver
// connection. Read side: the decoding steps of Undo in its order
// (decodeUndoLogCtx, getRollbackInfo, deserializeBranchUndoLog, JSON parser,
// ColumnImage.UnmarshalJSON). Equality: datasource.DeepEqual, the comparison
// the undo executors' data validation uses.

import (
	"database/sql/driver"
	"time"

	"seata.apache.org/seata-go/pkg/datasource/sql/datasource"
	"seata.apache.org/seata-go/pkg/datasource/sql/types"
	"seata.apache.org/seata-go/pkg/datasource/sql/undo"
	"seata.apache.org/seata-go/pkg/zzverif/vrt"
)

type c08Conn struct {
	driver.Conn
	args []driver.Value
}

type c08Stmt struct {
	driver.Stmt
	c *c08Conn
}

func (c *c08Conn) Prepare(q string) (driver.Stmt, error) { return &c08Stmt{c: c}, nil }
func (s *c08Stmt) Exec(args []driver.Value) (driver.Result, error) {
	s.c.args = args
	return driver.RowsAffected(1), nil
}
func (s *c08Stmt) Close() error { return nil }

// c08Column: a (JDBC type, Go value) pair the image builder can emit: the scan
// targets of baseExecutor.GetScanSlice per MySQL type name and the JDBC code
// MySQLStrToJavaType gives that name.
type c08Column struct {
	name string
	jdbc types.JDBCType
	mk   func() interface{}
}

func c08IntIn(tag string, lo, hi int64) func() interface{} {
	return func() interface{} {
		v := vrt.Int64(tag)
		vrt.Assume(v >= lo && v <= hi)
		return v
	}
}

func c08Ascii(tag string, n int) func() interface{} {
	return func() interface{} {
		s := vrt.String(tag, n)
		for k := 0; k < len(s); k++ {
			vrt.Assume(s[k]-0x20 < 0x5f) // printable ASCII, one comparison (no fork)
		}
		return s
	}
}

var c08Columns = []c08Column{
	{"bigint", types.JDBCTypeBigInt, func() interface{} { return vrt.Int64("v.bigint") }},
	{"int", types.JDBCTypeInteger, c08IntIn("v.int", -2147483648, 4294967295)}, // INT and INT UNSIGNED
	{"smallint", types.JDBCTypeSmallInt, c08IntIn("v.smallint", -32768, 65535)},
	{"tinyint", types.JDBCTypeTinyInt, c08IntIn("v.tinyint", -128, 255)},
	{"bit", types.JDBCTypeBit, c08IntIn("v.bit", 0, 1)},
	{"varchar", types.JDBCTypeVarchar, c08Ascii("v.varchar", 3)},
	{"varchar-base64-looking", types.JDBCTypeVarchar, func() interface{} { return "test" }},
	{"varchar-empty", types.JDBCTypeVarchar, func() interface{} { return "" }},
	{"varchar-number-looking", types.JDBCTypeVarchar, func() interface{} { return "1234" }},
	{"char", types.JDBCTypeChar, c08Ascii("v.char", 2)},
	{"text", types.JDBCTypeLongVarchar, c08Ascii("v.text", 4)},
	{"double", types.JDBCTypeDouble, func() interface{} { return vrt.Float64("v.double") }},
	{"decimal", types.JDBCTypeDecimal, func() interface{} { return vrt.Float64("v.decimal") }},
	{"float", types.JDBCTypeReal, func() interface{} { return vrt.Float64("v.float") }},
	{"timestamp", types.JDBCTypeTimestamp, func() interface{} { return time.Date(2024, 2, 29, 23, 59, 58, 123456000, time.UTC) }},
	{"date", types.JDBCTypeDate, func() interface{} { return time.Date(1999, 12, 31, 0, 0, 0, 0, time.UTC) }},
	{"blob", types.JDBCTypeLongVarBinary, func() interface{} { return []byte{vrt.Uint8("v.blob0"), vrt.Uint8("v.blob1")} }},
	{"null", types.JDBCTypeVarchar, func() interface{} { return nil }},
}

var c08Serializers = []string{"json", "protobuf"}
var c08Compress = []string{"None", "Gzip", "Zip", "Bzip2", "Lz4", "Deflate", "Zstd", "Sevenz", "gzip", ""}

func c08Finite(v interface{}) bool {
	f, ok := v.(float64)
	return !ok || (f == f && f-f == 0)
}

// VerifC08Codec: one branch undo log with one UPDATE of one row whose second
// column is of an arbitrary emitted kind; every serializer / compressor
// setting; what Undo decodes must equal what FlushUndoLog was given.
func VerifC08Codec() {
	c08Run(c08Columns[vrt.Choice("column", len(c08Columns))], "None", false)
}

// VerifC08Config: every compressor setting (known names, unknown spellings,
// enabled or not) with one column kind: the context stored beside the log must
// lead rollback to the decompressor of what was really written.
func VerifC08Config() {
	comp := c08Compress[vrt.Choice("compress.type", len(c08Compress))]
	c08Run(c08Columns[0], comp, vrt.Bool("compress.enable"))
}

// VerifC08Protobuf: the protobuf serializer (the conversion between the undo-log
// structures and the generated message types and the JSON encoding of the column
// values inside it are interpreted; the protobuf library's wire format is a model),
// every column kind, images of two rows.
func VerifC08Protobuf() {
	c08ForceSerializer = "protobuf"
	c08ImageRows = 2
	c08Run(c08Columns[vrt.Choice("column", len(c08Columns))], "None", false)
}

var c08ForceSerializer string
var c08ImageRows = 1

func c08Run(col c08Column, comp string, enable bool) {
	ser := c08ForceSerializer
	if ser == "" {
		ser = c08Serializers[vrt.Choice("serializer", vrt.Param("serializers", 1))]
	}
	undo.UndoConfig = undo.Config{LogSerialization: ser, CompressConfig: undo.CompressConfig{Enable: enable, Type: comp, Threshold: "64k"}}

	id := vrt.Int64("id")
	before, after := col.mk(), col.mk()
	vrt.Assume(c08Finite(before) && c08Finite(after)) // NaN / Inf cannot be stored in a MySQL column
	// a second row (key 7, another value of the same kind) when the entry asks for it
	var before2, after2 interface{}
	if c08ImageRows > 1 {
		if vrt.Param("secondrow", 0) == 1 {
			before2, after2 = col.mk(), col.mk()
			vrt.Assume(c08Finite(before2) && c08Finite(after2))
		} else {
			// no new unknowns: the second row holds the first row's values the other way round
			before2, after2 = after, before
		}
	}
	mkImage := func(v, v2 interface{}) *types.RecordImage {
		im := &types.RecordImage{TableName: "t", SQLType: types.SQLTypeUpdate, Rows: []types.RowImage{{Columns: []types.ColumnImage{
			{KeyType: types.IndexTypePrimaryKey, ColumnName: "id", ColumnType: types.JDBCTypeBigInt, Value: id},
			{KeyType: types.IndexTypeNull, ColumnName: "c", ColumnType: col.jdbc, Value: v},
		}}}}
		if c08ImageRows > 1 {
			im.Rows = append(im.Rows, types.RowImage{Columns: []types.ColumnImage{
				{KeyType: types.IndexTypePrimaryKey, ColumnName: "id", ColumnType: types.JDBCTypeBigInt, Value: int64(7)},
				{KeyType: types.IndexTypeNull, ColumnName: "c", ColumnType: col.jdbc, Value: v2},
			}})
		}
		return im
	}
	xid := vrt.String("xid", 2)
	vrt.Assume(xid[0]-0x20 < 0x5f) // xids are ASCII (address:port:number)
	vrt.Assume(xid[1]-0x20 < 0x5f)
	branchID := vrt.Uint64("branch")
	tranCtx := types.NewTxCtx()
	tranCtx.XID, tranCtx.BranchID, tranCtx.DBType, tranCtx.TransactionMode = xid, branchID, types.DBTypeMySQL, types.ATMode
	tranCtx.RoundImages.AppendBeofreImage(mkImage(before, before2))
	tranCtx.RoundImages.AppendAfterImage(mkImage(after, after2))

	m := NewBaseUndoLogManager()
	conn := &c08Conn{}
	tag := col.name
	if c08ForceSerializer != "" {
		tag = c08ForceSerializer + "-" + col.name
	}
	if comp != "None" || enable {
		tag = "compress-" + comp
		if enable {
			tag += "-enabled"
		}
	}
	vrt.Reach("c08/" + tag)

	// ---- phase one: what is written
	var werr error
	wpanic := false
	func() {
		defer func() {
			if recover() != nil {
				wpanic = true
			}
		}()
		werr = m.FlushUndoLog(tranCtx, conn)
	}()
	vrt.Assert(!wpanic, "c08/encode-no-panic/"+tag)
	if wpanic {
		return
	}
	vrt.Assert(werr == nil, "c08/encode-succeeds/"+tag)
	if werr != nil {
		return
	}
	vrt.Assert(len(conn.args) == 5, "c08/undo-log-row-written/"+tag)
	if len(conn.args) != 5 {
		return
	}
	storedCtx, _ := conn.args[2].([]byte)
	storedInfo, _ := conn.args[3].([]byte)
	vrt.Assert(conn.args[0] == driver.Value(branchID) && conn.args[1] == driver.Value(xid), "c08/row-names-the-branch/"+tag)

	// ---- rollback: what is read (the decoding steps of Undo, in its order)
	var back *undo.BranchUndoLog
	var rerr error
	rpanic := false
	func() {
		defer func() {
			if recover() != nil {
				rpanic = true
			}
		}()
		var logCtx map[string]string
		if storedCtx != nil && string(storedCtx) != "" {
			logCtx = m.decodeUndoLogCtx(storedCtx)
		}
		vrt.Assert(logCtx != nil, "c08/context-is-stored/"+tag)
		if logCtx == nil {
			return
		}
		var info []byte
		info, rerr = m.getRollbackInfo(storedInfo, logCtx)
		if rerr != nil {
			return
		}
		back, rerr = m.deserializeBranchUndoLog(info, logCtx)
	}()
	vrt.Assert(!rpanic, "c08/decode-no-panic/"+tag)
	if rpanic {
		return
	}
	vrt.Assert(rerr == nil && back != nil, "c08/decode-succeeds/"+tag)
	if rerr != nil || back == nil {
		return
	}
	vrt.Reach("c08/decoded")
	vrt.Assert(back.Xid == xid && back.BranchID == branchID && len(back.Logs) == 1, "c08/branch-identity-restored/"+tag)
	if len(back.Logs) != 1 {
		return
	}
	l := back.Logs[0]
	vrt.Assert(l.SQLType == types.SQLTypeUpdate && l.TableName == "t" && l.BeforeImage != nil && l.AfterImage != nil, "c08/statement-restored/"+tag)
	if l.BeforeImage == nil || l.AfterImage == nil {
		return
	}
	for k, pair := range []struct {
		img   *types.RecordImage
		want  interface{}
		want2 interface{}
	}{{l.BeforeImage, before, before2}, {l.AfterImage, after, after2}} {
		which := []string{"before", "after"}[k]
		vrt.Assert(len(pair.img.Rows) == c08ImageRows && len(pair.img.Rows[0].Columns) == 2, "c08/row-and-column-count-restored/"+tag)
		if len(pair.img.Rows) != c08ImageRows || len(pair.img.Rows[0].Columns) != 2 {
			return
		}
		if c08ImageRows > 1 {
			vrt.Assert(len(pair.img.Rows[1].Columns) == 2, "c08/row-and-column-count-restored/"+tag)
			if len(pair.img.Rows[1].Columns) != 2 {
				return
			}
			d0, d1 := pair.img.Rows[1].Columns[0], pair.img.Rows[1].Columns[1]
			vrt.Assert(datasource.DeepEqual(d0.Value, int64(7)), "c08/second-row-key-restored/"+which+"/"+tag)
			vrt.Assert(d1.ColumnName == "c" && d1.ColumnType == col.jdbc && datasource.DeepEqual(d1.Value, pair.want2), "c08/second-row-value-restored/"+which+"/"+tag)
		}
		c0, c1 := pair.img.Rows[0].Columns[0], pair.img.Rows[0].Columns[1]
		vrt.Assert(c0.ColumnName == "id" && c0.KeyType == types.IndexTypePrimaryKey && c0.ColumnType == types.JDBCTypeBigInt, "c08/key-column-flags-restored/"+tag)
		vrt.Assert(datasource.DeepEqual(c0.Value, id), "c08/key-value-restored/"+which+"/"+tag)
		vrt.Assert(c1.ColumnName == "c" && c1.KeyType == types.IndexTypeNull && c1.ColumnType == col.jdbc, "c08/column-flags-restored/"+tag)
		vrt.Assert(datasource.DeepEqual(c1.Value, pair.want), "c08/column-value-restored/"+which+"/"+tag)
	}
}
