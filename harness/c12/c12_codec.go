package codec

// C12 — wire codec matches the Seata v1 layout and round-trips every message.
// The reference encoder below (c12w) is independent of pkg/util/bytes; the
// per-type field order, widths and type codes are written from the Seata v1
// protocol (io.seata.serializer.seata.protocol.*). See DESIGN.md §4 C12.

import (
	"strings"
	"time"

	"seata.apache.org/seata-go/pkg/protocol/branch"
	"seata.apache.org/seata-go/pkg/protocol/message"
	serror "seata.apache.org/seata-go/pkg/util/errors"
	"seata.apache.org/seata-go/pkg/zzverif/vrt"
)

type c12w struct{ b []byte }

func (w *c12w) u8(v byte)    { w.b = append(w.b, v) }
func (w *c12w) u16(v uint16) { w.b = append(w.b, byte(v>>8), byte(v)) }
func (w *c12w) u32(v uint32) { w.b = append(w.b, byte(v>>24), byte(v>>16), byte(v>>8), byte(v)) }
func (w *c12w) i64(v int64) {
	u := uint64(v)
	w.b = append(w.b, byte(u>>56), byte(u>>48), byte(u>>40), byte(u>>32), byte(u>>24), byte(u>>16), byte(u>>8), byte(u))
}
func (w *c12w) str8(s string)  { w.u8(byte(len(s))); w.b = append(w.b, s...) }
func (w *c12w) str16(s string) { w.u16(uint16(len(s))); w.b = append(w.b, s...) }
func (w *c12w) str32(s string) { w.u32(uint32(len(s))); w.b = append(w.b, s...) }

// c12Len picks a length from the boundary set of the tier.
func c12Len(name string, set []int) int { return set[vrt.Choice(name+".len", len(set))] }

// c12S makes a string of n bytes: fully symbolic when short, otherwise two
// symbolic bytes followed by a constant filler (length handling, not content,
// is what long strings exercise; the symbolic head makes offset shifts and
// multi-byte characters visible).
func c12S(name string, n int) string {
	if n <= 6 {
		return vrt.String(name, n)
	}
	return vrt.String(name+".head", 2) + strings.Repeat("x", n-2)
}

var c12Short = []int{0, 1, 3}

func c12Str(name string) string { return c12S(name, c12Len(name, c12Short)) }

func c12MsgLens() []int {
	if vrt.Param("longmsg", 0) == 1 {
		return []int{0, 1, 127, 128, 255, 256, 32767, 32768, 65535, 65536}
	}
	return []int{0, 1, 127, 128, 255, 256}
}

// result part shared by all responses: result code, optional message.
// width16: the prefix width of the failure message in this codec.
type c12Res struct {
	rc      byte
	msg     string
	normMsg string
	// narrowLong: 8-bit prefix and a message longer than 127 bytes: where the
	// cut is made is the codec's choice (any prefix that fits the width);
	// the layout is then not compared byte for byte.
	narrowLong bool
}

func c12Result(w *c12w, width16 bool) c12Res {
	r := c12Res{rc: vrt.Uint8("rc")}
	r.msg = c12S("msg", c12Len("msg", c12MsgLens()))
	w.u8(r.rc)
	if r.rc == byte(message.ResultCodeFailed) {
		m := r.msg
		if width16 {
			if len(m) > 32767 {
				m = m[:32767]
			}
			w.str16(m)
		} else {
			if len(m) > 127 {
				m = m[:127]
				r.narrowLong = true
			}
			w.str8(m)
		}
		r.normMsg = m
	}
	c12SkipLayout = r.narrowLong
	return r
}

func c12BytesEq(a, b []byte) bool {
	if len(a) != len(b) {
		return false
	}
	for i := range a {
		if a[i] != b[i] {
			return false
		}
	}
	return true
}

func c12ARM(r c12Res) message.AbstractResultMessage {
	return message.AbstractResultMessage{ResultCode: message.ResultCode(r.rc), Msg: r.msg}
}

func c12ATR(r c12Res, ec byte) message.AbstractTransactionResponse {
	return message.AbstractTransactionResponse{AbstractResultMessage: c12ARM(r), TransactionErrorCode: serror.TransactionErrorCode(ec)}
}

func c12SameATR(d message.AbstractTransactionResponse, r c12Res, ec byte) bool {
	if r.narrowLong {
		return byte(d.ResultCode) == r.rc && len(d.Msg) <= 255 && strings.HasPrefix(r.msg, d.Msg) && byte(d.TransactionErrorCode) == ec
	}
	return byte(d.ResultCode) == r.rc && d.Msg == r.normMsg && byte(d.TransactionErrorCode) == ec
}

var c12SkipLayout bool

const c12NumTypes = 24

var c12Names = [c12NumTypes]string{
	"GlobalBeginRequest", "GlobalBeginResponse", "GlobalCommitRequest", "GlobalCommitResponse",
	"GlobalRollbackRequest", "GlobalRollbackResponse", "GlobalStatusRequest", "GlobalStatusResponse",
	"GlobalReportRequest", "GlobalReportResponse", "GlobalLockQueryRequest", "GlobalLockQueryResponse",
	"BranchRegisterRequest", "BranchRegisterResponse", "BranchReportRequest", "BranchReportResponse",
	"BranchCommitRequest", "BranchCommitResponse", "BranchRollbackRequest", "BranchRollbackResponse",
	"RegisterTMRequest", "RegisterTMResponse", "RegisterRMRequest", "RegisterRMResponse",
}

// c12Case builds message k with symbolic fields; returns the message, its v1
// type code, the v1 body bytes and a predicate telling whether a decoded
// value equals the message up to the documented normalisation.
func c12Case(k int) (msg interface{}, code uint16, body []byte, same func(d interface{}) bool, cdc Codec) {
	w := &c12w{}
	switch k {
	case 0: // GlobalBeginRequest: int32 timeout ms, str16 name
		var to time.Duration
		if vrt.Choice("timeout.kind", 2) == 0 {
			to = time.Duration(vrt.Int64("timeout"))
		} else {
			to = time.Duration(vrt.Uint16("timeout.ms")) * time.Millisecond
		}
		name := c12Str("name")
		m := message.GlobalBeginRequest{Timeout: to, TransactionName: name}
		ms := uint32(int64(to) / 1e6)
		w.u32(ms)
		w.str16(name)
		return m, 1, w.b, func(d interface{}) bool {
			x, ok := d.(message.GlobalBeginRequest)
			return ok && x.TransactionName == name && x.Timeout == time.Duration(int64(ms)*1e6)
		}, &GlobalBeginRequestCodec{}
	case 1: // GlobalBeginResponse
		r := c12Result(w, true)
		ec := vrt.Uint8("ec")
		xid, extra := c12Str("xid"), c12Str("extra")
		w.u8(ec)
		w.str16(xid)
		w.str16(extra)
		m := message.GlobalBeginResponse{AbstractTransactionResponse: c12ATR(r, ec), Xid: xid, ExtraData: []byte(extra)}
		return m, 2, w.b, func(d interface{}) bool {
			x, ok := d.(message.GlobalBeginResponse)
			return ok && c12SameATR(x.AbstractTransactionResponse, r, ec) && x.Xid == xid && string(x.ExtraData) == extra
		}, &GlobalBeginResponseCodec{}
	case 2, 4, 6, 8: // Global{Commit,Rollback,Status,Report}Request
		xid, extra := c12Str("xid"), c12Str("extra")
		w.str16(xid)
		w.str16(extra)
		end := message.AbstractGlobalEndRequest{Xid: xid, ExtraData: []byte(extra)}
		sameEnd := func(x message.AbstractGlobalEndRequest) bool { return x.Xid == xid && string(x.ExtraData) == extra }
		switch k {
		case 2:
			return message.GlobalCommitRequest{AbstractGlobalEndRequest: end}, 7, w.b, func(d interface{}) bool {
				x, ok := d.(message.GlobalCommitRequest)
				return ok && sameEnd(x.AbstractGlobalEndRequest)
			}, &GlobalCommitRequestCodec{}
		case 4:
			return message.GlobalRollbackRequest{AbstractGlobalEndRequest: end}, 9, w.b, func(d interface{}) bool {
				x, ok := d.(message.GlobalRollbackRequest)
				return ok && sameEnd(x.AbstractGlobalEndRequest)
			}, &GlobalRollbackRequestCodec{}
		case 6:
			return message.GlobalStatusRequest{AbstractGlobalEndRequest: end}, 15, w.b, func(d interface{}) bool {
				x, ok := d.(message.GlobalStatusRequest)
				return ok && sameEnd(x.AbstractGlobalEndRequest)
			}, &GlobalStatusRequestCodec{}
		default:
			gs := vrt.Uint8("gs")
			w.u8(gs)
			return message.GlobalReportRequest{AbstractGlobalEndRequest: end, GlobalStatus: message.GlobalStatus(gs)}, 17, w.b, func(d interface{}) bool {
				x, ok := d.(message.GlobalReportRequest)
				return ok && sameEnd(x.AbstractGlobalEndRequest) && byte(x.GlobalStatus) == gs
			}, &GlobalReportRequestCodec{}
		}
	case 3, 5, 7, 9: // Global{Commit,Rollback,Status,Report}Response
		r := c12Result(w, true)
		ec, gs := vrt.Uint8("ec"), vrt.Uint8("gs")
		w.u8(ec)
		w.u8(gs)
		end := message.AbstractGlobalEndResponse{AbstractTransactionResponse: c12ATR(r, ec), GlobalStatus: message.GlobalStatus(gs)}
		sameEnd := func(x message.AbstractGlobalEndResponse) bool {
			return c12SameATR(x.AbstractTransactionResponse, r, ec) && byte(x.GlobalStatus) == gs
		}
		switch k {
		case 3:
			return message.GlobalCommitResponse{AbstractGlobalEndResponse: end}, 8, w.b, func(d interface{}) bool {
				x, ok := d.(message.GlobalCommitResponse)
				return ok && sameEnd(x.AbstractGlobalEndResponse)
			}, &GlobalCommitResponseCodec{}
		case 5:
			return message.GlobalRollbackResponse{AbstractGlobalEndResponse: end}, 10, w.b, func(d interface{}) bool {
				x, ok := d.(message.GlobalRollbackResponse)
				return ok && sameEnd(x.AbstractGlobalEndResponse)
			}, &GlobalRollbackResponseCodec{}
		case 7:
			return message.GlobalStatusResponse{AbstractGlobalEndResponse: end}, 16, w.b, func(d interface{}) bool {
				x, ok := d.(message.GlobalStatusResponse)
				return ok && sameEnd(x.AbstractGlobalEndResponse)
			}, &GlobalStatusResponseCodec{}
		default:
			return message.GlobalReportResponse{AbstractGlobalEndResponse: end}, 18, w.b, func(d interface{}) bool {
				x, ok := d.(message.GlobalReportResponse)
				return ok && sameEnd(x.AbstractGlobalEndResponse)
			}, &GlobalReportResponseCodec{}
		}
	case 10, 12: // GlobalLockQueryRequest / BranchRegisterRequest
		// the lock key (32-bit length prefix) may be long: thousands of rows
		xid, rid, lk, app := c12Str("xid"), c12Str("rid"), c12S("lockKey", c12Len("lockKey", []int{0, 1, 3, 65535, 65536, 70001})), c12Str("app")
		bt := vrt.Uint8("bt")
		w.str16(xid)
		w.u8(bt)
		w.str16(rid)
		w.str32(lk)
		w.str32(app)
		reg := message.BranchRegisterRequest{Xid: xid, BranchType: branch.BranchType(bt), ResourceId: rid, LockKey: lk, ApplicationData: []byte(app)}
		sameReg := func(x message.BranchRegisterRequest) bool {
			return x.Xid == xid && byte(x.BranchType) == bt && x.ResourceId == rid && x.LockKey == lk && string(x.ApplicationData) == app
		}
		if k == 10 {
			return message.GlobalLockQueryRequest{BranchRegisterRequest: reg}, 21, w.b, func(d interface{}) bool {
				x, ok := d.(message.GlobalLockQueryRequest)
				return ok && sameReg(x.BranchRegisterRequest)
			}, &GlobalLockQueryRequestCodec{}
		}
		return reg, 11, w.b, func(d interface{}) bool {
			x, ok := d.(message.BranchRegisterRequest)
			return ok && sameReg(x)
		}, &BranchRegisterRequestCodec{}
	case 11: // GlobalLockQueryResponse
		r := c12Result(w, false)
		ec := vrt.Uint8("ec")
		lockable := vrt.Bool("lockable")
		w.u8(ec)
		if lockable {
			w.u16(1)
		} else {
			w.u16(0)
		}
		m := message.GlobalLockQueryResponse{AbstractTransactionResponse: c12ATR(r, ec), Lockable: lockable}
		return m, 22, w.b, func(d interface{}) bool {
			x, ok := d.(message.GlobalLockQueryResponse)
			return ok && c12SameATR(x.AbstractTransactionResponse, r, ec) && x.Lockable == lockable
		}, &GlobalLockQueryResponseCodec{}
	case 13: // BranchRegisterResponse
		r := c12Result(w, true)
		ec := vrt.Uint8("ec")
		bid := vrt.Int64("bid")
		w.u8(ec)
		w.i64(bid)
		m := message.BranchRegisterResponse{AbstractTransactionResponse: c12ATR(r, ec), BranchId: bid}
		return m, 12, w.b, func(d interface{}) bool {
			x, ok := d.(message.BranchRegisterResponse)
			return ok && c12SameATR(x.AbstractTransactionResponse, r, ec) && x.BranchId == bid
		}, &BranchRegisterResponseCodec{}
	case 14: // BranchReportRequest
		xid, rid, app := c12Str("xid"), c12Str("rid"), c12Str("app")
		bid := vrt.Int64("bid")
		st, bt := vrt.Uint8("status"), vrt.Uint8("bt")
		w.str16(xid)
		w.i64(bid)
		w.u8(st)
		w.str16(rid)
		w.str32(app)
		w.u8(bt)
		m := message.BranchReportRequest{Xid: xid, BranchId: bid, ResourceId: rid, Status: branch.BranchStatus(st), ApplicationData: []byte(app), BranchType: branch.BranchType(bt)}
		return m, 13, w.b, func(d interface{}) bool {
			x, ok := d.(message.BranchReportRequest)
			return ok && x.Xid == xid && x.BranchId == bid && x.ResourceId == rid && byte(x.Status) == st && string(x.ApplicationData) == app && byte(x.BranchType) == bt
		}, &BranchReportRequestCodec{}
	case 15: // BranchReportResponse
		r := c12Result(w, false)
		ec := vrt.Uint8("ec")
		w.u8(ec)
		m := message.BranchReportResponse{AbstractTransactionResponse: c12ATR(r, ec)}
		return m, 14, w.b, func(d interface{}) bool {
			x, ok := d.(message.BranchReportResponse)
			return ok && c12SameATR(x.AbstractTransactionResponse, r, ec)
		}, &BranchReportResponseCodec{}
	case 16, 18: // BranchCommitRequest / BranchRollbackRequest
		xid, rid, app := c12Str("xid"), c12Str("rid"), c12Str("app")
		bid := vrt.Int64("bid")
		bt := vrt.Uint8("bt")
		w.str16(xid)
		w.i64(bid)
		w.u8(bt)
		w.str16(rid)
		w.str32(app)
		end := message.AbstractBranchEndRequest{Xid: xid, BranchId: bid, BranchType: branch.BranchType(bt), ResourceId: rid, ApplicationData: []byte(app)}
		sameEnd := func(x message.AbstractBranchEndRequest) bool {
			return x.Xid == xid && x.BranchId == bid && byte(x.BranchType) == bt && x.ResourceId == rid && string(x.ApplicationData) == app
		}
		if k == 16 {
			return message.BranchCommitRequest{AbstractBranchEndRequest: end}, 3, w.b, func(d interface{}) bool {
				x, ok := d.(message.BranchCommitRequest)
				return ok && sameEnd(x.AbstractBranchEndRequest)
			}, &BranchCommitRequestCodec{}
		}
		return message.BranchRollbackRequest{AbstractBranchEndRequest: end}, 5, w.b, func(d interface{}) bool {
			x, ok := d.(message.BranchRollbackRequest)
			return ok && sameEnd(x.AbstractBranchEndRequest)
		}, &BranchRollbackRequestCodec{}
	case 17, 19: // BranchCommitResponse / BranchRollbackResponse
		r := c12Result(w, false)
		ec := vrt.Uint8("ec")
		xid := c12Str("xid")
		bid := vrt.Int64("bid")
		bs := vrt.Uint8("bs")
		w.u8(ec)
		w.str16(xid)
		w.i64(bid)
		w.u8(bs)
		end := message.AbstractBranchEndResponse{AbstractTransactionResponse: c12ATR(r, ec), Xid: xid, BranchId: bid, BranchStatus: branch.BranchStatus(bs)}
		sameEnd := func(x message.AbstractBranchEndResponse) bool {
			return c12SameATR(x.AbstractTransactionResponse, r, ec) && x.Xid == xid && x.BranchId == bid && byte(x.BranchStatus) == bs
		}
		if k == 17 {
			return message.BranchCommitResponse{AbstractBranchEndResponse: end}, 4, w.b, func(d interface{}) bool {
				x, ok := d.(message.BranchCommitResponse)
				return ok && sameEnd(x.AbstractBranchEndResponse)
			}, &BranchCommitResponseCodec{}
		}
		return message.BranchRollbackResponse{AbstractBranchEndResponse: end}, 6, w.b, func(d interface{}) bool {
			x, ok := d.(message.BranchRollbackResponse)
			return ok && sameEnd(x.AbstractBranchEndResponse)
		}, &BranchRollbackResponseCodec{}
	case 20, 22: // RegisterTMRequest / RegisterRMRequest
		ver, app, grp, extra := c12Str("version"), c12Str("appId"), c12Str("group"), c12Str("extra")
		w.str16(ver)
		w.str16(app)
		w.str16(grp)
		w.str16(extra)
		id := message.AbstractIdentifyRequest{Version: ver, ApplicationId: app, TransactionServiceGroup: grp, ExtraData: []byte(extra)}
		sameID := func(x message.AbstractIdentifyRequest) bool {
			return x.Version == ver && x.ApplicationId == app && x.TransactionServiceGroup == grp && string(x.ExtraData) == extra
		}
		if k == 20 {
			return message.RegisterTMRequest{AbstractIdentifyRequest: id}, 101, w.b, func(d interface{}) bool {
				x, ok := d.(message.RegisterTMRequest)
				return ok && sameID(x.AbstractIdentifyRequest)
			}, &RegisterTMRequestCodec{}
		}
		rids := c12Str("resourceIds")
		w.str32(rids)
		return message.RegisterRMRequest{AbstractIdentifyRequest: id, ResourceIds: rids}, 103, w.b, func(d interface{}) bool {
			x, ok := d.(message.RegisterRMRequest)
			return ok && sameID(x.AbstractIdentifyRequest) && x.ResourceIds == rids
		}, &RegisterRMRequestCodec{}
	default: // 21, 23: RegisterTMResponse / RegisterRMResponse
		identified := vrt.Bool("identified")
		ver := c12Str("version")
		if identified {
			w.u8(1)
		} else {
			w.u8(0)
		}
		w.str16(ver)
		id := message.AbstractIdentifyResponse{Version: ver, Identified: identified}
		sameID := func(x message.AbstractIdentifyResponse) bool { return x.Version == ver && x.Identified == identified }
		if k == 21 {
			return message.RegisterTMResponse{AbstractIdentifyResponse: id}, 102, w.b, func(d interface{}) bool {
				x, ok := d.(message.RegisterTMResponse)
				return ok && sameID(x.AbstractIdentifyResponse)
			}, &RegisterTMResponseCodec{}
		}
		return message.RegisterRMResponse{AbstractIdentifyResponse: id}, 104, w.b, func(d interface{}) bool {
			x, ok := d.(message.RegisterRMResponse)
			return ok && sameID(x.AbstractIdentifyResponse)
		}, &RegisterRMResponseCodec{}
	}
}

// c12Narrow: the four response codecs whose failure-message prefix is 8 bits
// wide in this client (see DESIGN.md: whether v1 uses 16 there cannot be
// demonstrated offline; the check demands self-consistency for them).
func c12Narrow(k int) bool { return k == 11 || k == 15 || k == 17 || k == 19 }

// VerifC12RoundTrip: layout and round trip for every message type.
func VerifC12RoundTrip() {
	k := vrt.Choice("type", c12NumTypes)
	name := c12Names[k]
	c12SkipLayout = false
	msg, code, body, same, cdc := c12Case(k)
	vrt.Reach("rt/" + name)

	// the codec's own type code equals the message's and the v1 code
	aware := msg.(message.MessageTypeAware)
	vrt.Assert(uint16(aware.GetTypeCode()) == code, "typecode/message/"+name)
	vrt.Assert(cdc.GetMessageType() == aware.GetTypeCode(), "typecode/codec/"+name)

	enc := cdc.Encode(msg)
	if !c12SkipLayout {
		vrt.Assert(c12BytesEq(enc, body), "layout/"+name)
	}

	dec := cdc.Decode(enc)
	vrt.Assert(same(dec), "roundtrip/"+name)
}

// VerifC12Manager: through the registry (type-code prefix, lookup, Decode
// dispatch) for the 23 registered types.
func VerifC12Manager() {
	Init()
	k := vrt.Choice("type", c12NumTypes)
	name := c12Names[k]
	c12SkipLayout = false
	msg, code, body, same, _ := c12Case(k)
	enc := GetCodecManager().Encode(CodecTypeSeata, msg)
	if k == 8 {
		// GlobalReportRequest is never sent by this client and has no registered codec
		return
	}
	vrt.Reach("mgr/" + name)
	want := append([]byte{byte(code >> 8), byte(code)}, body...)
	if !c12SkipLayout {
		vrt.Assert(c12BytesEq(enc, want), "mgr/layout/"+name)
	}
	dec := GetCodecManager().Decode(CodecTypeSeata, enc)
	vrt.Assert(dec != nil && same(dec), "mgr/roundtrip/"+name)
}

// VerifC12ShortBody: decoding a truncated or arbitrary body never panics.
func VerifC12ShortBody() {
	Init()
	vrt.MaxAlloc(8)
	k := vrt.Choice("type", c12NumTypes)
	_, _, _, _, cdc := c12CaseConcrete(k)
	n := vrt.Choice("len", vrt.Param("maxbody", 6)+1)
	data := vrt.Bytes("body", n)
	panicked := false
	func() {
		defer func() {
			if recover() != nil {
				panicked = true
			}
		}()
		cdc.Decode(data)
	}()
	vrt.Reach("short/" + c12Names[k])
	vrt.Assert(!panicked, "short/no-panic/"+c12Names[k])
}

// c12CaseConcrete returns the codec of type k without creating inputs.
func c12CaseConcrete(k int) (interface{}, uint16, []byte, func(interface{}) bool, Codec) {
	codecs := [c12NumTypes]Codec{
		&GlobalBeginRequestCodec{}, &GlobalBeginResponseCodec{}, &GlobalCommitRequestCodec{}, &GlobalCommitResponseCodec{},
		&GlobalRollbackRequestCodec{}, &GlobalRollbackResponseCodec{}, &GlobalStatusRequestCodec{}, &GlobalStatusResponseCodec{},
		&GlobalReportRequestCodec{}, &GlobalReportResponseCodec{}, &GlobalLockQueryRequestCodec{}, &GlobalLockQueryResponseCodec{},
		&BranchRegisterRequestCodec{}, &BranchRegisterResponseCodec{}, &BranchReportRequestCodec{}, &BranchReportResponseCodec{},
		&BranchCommitRequestCodec{}, &BranchCommitResponseCodec{}, &BranchRollbackRequestCodec{}, &BranchRollbackResponseCodec{},
		&RegisterTMRequestCodec{}, &RegisterTMResponseCodec{}, &RegisterRMRequestCodec{}, &RegisterRMResponseCodec{},
	}
	return nil, 0, nil, nil, codecs[k]
}

var _ = c12Narrow
