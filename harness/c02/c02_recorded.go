package sql

// C02, end to end: a real DML statement goes through the real AT executors on
// the evaluating stub database (harness/c18/adb.go, here with transactions: BEGIN
// takes a snapshot, ROLLBACK restores it, the undo-log insert is a row of its
// own table) inside a global transaction, on an autocommit connection or in an
// explicit local transaction; the coordinator is a script; one step may fail:
// any statement the proxy issues (image selects, business statement, undo
// insert, BEGIN, COMMIT, ROLLBACK) or the registration.
//
// Oracle, on what is durable in the stub afterwards: either the business write
// and exactly one undo-log row naming the registered branch, or neither; the
// order REGISTER < undo insert < COMMIT; an error for the caller whenever
// nothing was committed; the connection not left inside a transaction; a
// registered branch whose phase one failed reported as such.

import (
	"database/sql/driver"
	"errors"
	"strings"

	"seata.apache.org/seata-go/pkg/datasource/sql/undo"
	"seata.apache.org/seata-go/pkg/protocol/branch"
	"seata.apache.org/seata-go/pkg/protocol/message"
	"seata.apache.org/seata-go/pkg/remoting/getty"
	"seata.apache.org/seata-go/pkg/zzverif/vrt"
)

var c02Programs = []c18Stmt{
	{"update-by-key", "UPDATE t SET a = ? WHERE id = ?", 2, true, false, map[int]int64{1: 10}},
	{"update-by-data", "UPDATE t SET b = ? WHERE a > ?", 2, true, false, nil},
	{"delete-by-key", "DELETE FROM t WHERE id = ?", 1, true, false, map[int]int64{0: 20}},
	{"insert-one", "INSERT INTO t (id, a, b) VALUES (?, ?, ?)", 3, true, false, map[int]int64{0: 30}},
	{"upsert-mixed", "INSERT INTO t (id, a, b) VALUES (10, ?, ?), (30, ?, ?) ON DUPLICATE KEY UPDATE a = ?", 5, true, false, nil},
}

func c02SameRows(a, b []aRow) bool {
	n := func(rs []aRow) int {
		k := 0
		for _, r := range rs {
			if r.present {
				k++
			}
		}
		return k
	}
	if n(a) != n(b) {
		return false
	}
	for _, ra := range a {
		if !ra.present {
			continue
		}
		found := false
		for _, rb := range b {
			if rb.present && ra.cells[0] == rb.cells[0] && aSameRow(ra, rb) {
				found = true
			}
		}
		if !found {
			return false
		}
	}
	return true
}

func VerifC02Recorded() {
	st := c02Programs[vrt.Choice("program", len(c02Programs))]
	c18WantNull = false
	w := c18Setup(false)
	undo.UndoConfig.LogSerialization = "json"
	undo.UndoConfig.CompressConfig = undo.CompressConfig{Type: "None"}
	d := w.d
	d.txSteps = true
	d.failAt = vrt.Choice("failAt", vrt.Param("maxfail", 9)+1) - 1
	regOutcome := vrt.Choice("register", 3) // granted, refused (lock conflict), no reply
	branchID := vrt.Int64("branchId")
	vrt.Assume(branchID > 0)
	registered, reports := 0, 0
	var reportStatus []branch.BranchStatus
	vrt.Redirect((*getty.GettyRemotingClient).SendSyncRequest, func(_ *getty.GettyRemotingClient, msg interface{}) (interface{}, error) {
		switch m := msg.(type) {
		case message.GlobalLockQueryRequest:
			return message.GlobalLockQueryResponse{AbstractTransactionResponse: message.AbstractTransactionResponse{
				AbstractResultMessage: message.AbstractResultMessage{ResultCode: message.ResultCodeSuccess}}, Lockable: true}, nil
		case message.BranchRegisterRequest:
			d.journal = append(d.journal, "REGISTER")
			switch regOutcome {
			case 0:
				registered++
				return message.BranchRegisterResponse{AbstractTransactionResponse: message.AbstractTransactionResponse{
					AbstractResultMessage: message.AbstractResultMessage{ResultCode: message.ResultCodeSuccess}}, BranchId: branchID}, nil
			case 1:
				return message.BranchRegisterResponse{AbstractTransactionResponse: message.AbstractTransactionResponse{
					AbstractResultMessage: message.AbstractResultMessage{ResultCode: message.ResultCodeFailed, Msg: "lock conflict"}}}, nil
			}
			return nil, errors.New("wait response timeout")
		case message.BranchReportRequest:
			d.journal = append(d.journal, "REPORT")
			reports++
			reportStatus = append(reportStatus, m.Status)
			return message.BranchReportResponse{AbstractTransactionResponse: message.AbstractTransactionResponse{
				AbstractResultMessage: message.AbstractResultMessage{ResultCode: message.ResultCodeSuccess}}}, nil
		}
		return nil, errors.New("unexpected coordinator request")
	})
	initial := make([]aRow, len(d.rows))
	for i, r := range d.rows {
		initial[i] = r.clone()
	}
	explicit := vrt.Bool("explicit.transaction")
	mode := "autocommit"
	if explicit {
		mode = "explicit"
	}
	tag := st.name + "/" + mode
	args := c18Args(st)
	var err error
	panicked := false
	func() {
		defer func() {
			if recover() != nil {
				panicked = true
			}
		}()
		if !explicit {
			_, err = w.c.ExecContext(w.ctx, st.query, args)
			return
		}
		var tx driver.Tx
		tx, err = w.c.BeginTx(w.ctx, driver.TxOptions{})
		if err != nil {
			return
		}
		if _, err = w.c.ExecContext(w.ctx, st.query, args); err != nil {
			_ = tx.Rollback() // documented usage of database/sql
			return
		}
		err = tx.Commit()
	}()
	vrt.Observe("stub.bad", d.bad)
	vrt.Observe("stub.journal", strings.Join(d.journal, " || "))
	vrt.Reach("c02/recorded/" + tag)
	vrt.Assert(!panicked, "c02/recorded/no-panic/"+tag)
	if panicked || d.bad != "" {
		vrt.Assert(d.bad == "", "c02/recorded/statements-are-well-formed/"+tag)
		return
	}
	idx := func(what string) int {
		for i, q := range d.journal {
			if q == what {
				return i
			}
		}
		return -1
	}
	count := func(what string) int {
		n := 0
		for _, q := range d.journal {
			if q == what {
				n++
			}
		}
		return n
	}
	rows, undoRows := d.durable()
	committed := d.commitsOK > 0
	// what the statement changes at all (an UPDATE matching no row records nothing and needs no branch)
	changes := len(d.changedBefore) > 0 || len(d.changedAfter) > 0
	faulted := d.journalFailed != ""

	// all or nothing
	if committed {
		vrt.Reach("c02/recorded/committed")
		vrt.Assert(d.commitsOK == 1, "c02/recorded/one-local-commit/"+tag)
		if changes {
			vrt.Assert(len(undoRows) == 1, "c02/recorded/committed=>one-undo-log-row/"+tag)
			if len(undoRows) == 1 {
				vrt.Assert(undoRows[0].branch == branchID && undoRows[0].xid == "xid-1", "c02/recorded/undo-log-row-names-the-registered-branch/"+tag)
			}
			vrt.Assert(registered == 1, "c02/recorded/committed=>branch-registered/"+tag)
			iReg, iUndo, iCommit := idx("REGISTER"), idx("INSERT undo_log"), idx("COMMIT")
			vrt.Assert(iReg >= 0 && iUndo > iReg && iCommit > iUndo, "c02/recorded/register-then-undo-log-then-commit/"+tag)
		}
	} else {
		vrt.Reach("c02/recorded/not-committed")
		vrt.Assert(c02SameRows(rows, initial), "c02/recorded/not-committed=>table-unchanged/"+tag)
		vrt.Assert(len(undoRows) == 0, "c02/recorded/not-committed=>no-undo-log-row/"+tag)
	}
	if !faulted && regOutcome == 0 {
		vrt.Reach("c02/recorded/no-failure")
		vrt.Assert(err == nil, "c02/recorded/no-failure=>ok/"+tag)
		vrt.Assert(committed, "c02/recorded/no-failure=>committed/"+tag)
		vrt.Assert(!d.txOpen, "c02/recorded/no-open-transaction/"+tag)
		return
	}
	if faulted || (regOutcome != 0 && count("REGISTER") > 0) {
		vrt.Reach("c02/recorded/failure")
		if !committed {
			// nothing is durable: the caller must hear about it
			vrt.Assert(err != nil, "c02/recorded/nothing-committed=>error/"+tag)
		}
		// the connection is not left inside a transaction (unless ROLLBACK itself is what failed)
		if d.journalFailed != "ROLLBACK" {
			vrt.Assert(!d.txOpen, "c02/recorded/failure=>local-transaction-ended/"+tag)
		}
		if registered == 1 && !committed {
			vrt.Assert(reports >= 1, "c02/recorded/failure=>registered-branch-reported/"+tag)
			for _, s := range reportStatus {
				vrt.Assert(s == branch.BranchStatusPhaseoneFailed, "c02/recorded/failure=>report-says-phase-one-failed/"+tag)
			}
		}
	}
}
