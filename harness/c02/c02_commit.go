package sql

// C02 — AT phase one is atomic and ordered against the coordinator.
// Real ATConn.BeginTx / createNewTxOnExecIfNeed, ATTx.Commit/commitOnAT/
// Rollback, Tx.register/report, real undo manager FlushUndoLog/InsertUndoLog,
// real rm.RMRemoting.BranchRegister/BranchReport; the business statement and
// image capture (C18's subject) are replaced by the harness putting images and
// a lock key into the transaction context. See DESIGN.md §4 C02.

import (
	"context"
	"database/sql/driver"
	"errors"
	"strings"

	"seata.apache.org/seata-go/pkg/datasource/sql/types"
	"seata.apache.org/seata-go/pkg/datasource/sql/undo"
	undomysql "seata.apache.org/seata-go/pkg/datasource/sql/undo/mysql"
	undoparser "seata.apache.org/seata-go/pkg/datasource/sql/undo/parser"
	"seata.apache.org/seata-go/pkg/protocol/branch"
	"seata.apache.org/seata-go/pkg/protocol/message"
	"seata.apache.org/seata-go/pkg/remoting/getty"
	"seata.apache.org/seata-go/pkg/rm"
	"seata.apache.org/seata-go/pkg/tm"
	"seata.apache.org/seata-go/pkg/zzverif/vrt"
)

// one joint journal: database commands and coordinator messages
type c02Event struct {
	kind string // BEGIN, WRITE, UNDO-PREPARE, UNDO-INSERT, COMMIT, ROLLBACK, REGISTER, REPORT
	ok   bool
	arg  int64 // REPORT: status; REGISTER: branch id
}

// how many report attempts fail: none, all of the five attempts, one, ... (boundary values first)
var c02ReportFails = []int{0, 5, 1, 4, 6, 2, 3}

type c02World struct {
	ev      []c02Event
	ops     int // database operations so far
	failAt  int
	faulted bool
	openTx  int

	regOutcome  int // 0 ok, 1 refused, 2 transport error, 3 nil reply
	branchID    int64
	reportFails int // how many report attempts fail
	reports     int
	lockKeySeen string
}

func (w *c02World) db(kind string) error {
	k := w.ops
	w.ops++
	if k == w.failAt {
		w.faulted = true
		w.ev = append(w.ev, c02Event{kind, false, 0})
		return errors.New("injected database failure at " + kind)
	}
	w.ev = append(w.ev, c02Event{kind, true, 0})
	return nil
}

type c02Conn struct {
	driver.Conn
	w *c02World
}

func (c *c02Conn) BeginTx(ctx context.Context, opts driver.TxOptions) (driver.Tx, error) {
	if err := c.w.db("BEGIN"); err != nil {
		return nil, err
	}
	c.w.openTx++
	return &c02Tx{c.w}, nil
}
func (c *c02Conn) Begin() (driver.Tx, error) {
	return c.BeginTx(context.Background(), driver.TxOptions{})
}
func (c *c02Conn) Close() error { return nil }
func (c *c02Conn) ExecContext(ctx context.Context, q string, args []driver.NamedValue) (driver.Result, error) {
	if err := c.w.db("WRITE"); err != nil {
		return nil, err
	}
	return c02Result{}, nil
}
func (c *c02Conn) Prepare(q string) (driver.Stmt, error) {
	kind := "PREPARE"
	if strings.Contains(strings.ToLower(q), "undo_log") {
		kind = "UNDO-PREPARE"
	}
	if err := c.w.db(kind); err != nil {
		return nil, err
	}
	return &c02Stmt{w: c.w, undo: kind == "UNDO-PREPARE"}, nil
}

type c02Result struct{}

func (c02Result) LastInsertId() (int64, error) { return 0, nil }
func (c02Result) RowsAffected() (int64, error) { return 1, nil }

type c02Tx struct{ w *c02World }

func (t *c02Tx) Commit() error {
	if err := t.w.db("COMMIT"); err != nil {
		return err
	}
	t.w.openTx--
	return nil
}
func (t *c02Tx) Rollback() error {
	if err := t.w.db("ROLLBACK"); err != nil {
		return err
	}
	t.w.openTx--
	return nil
}

type c02Stmt struct {
	w    *c02World
	undo bool
}

func (s *c02Stmt) Close() error  { return nil }
func (s *c02Stmt) NumInput() int { return -1 }
func (s *c02Stmt) Exec(args []driver.Value) (driver.Result, error) {
	kind := "EXEC"
	if s.undo {
		kind = "UNDO-INSERT"
	}
	if err := s.w.db(kind); err != nil {
		return nil, err
	}
	return c02Result{}, nil
}
func (s *c02Stmt) Query(args []driver.Value) (driver.Rows, error) {
	return nil, errors.New("c02: unexpected query")
}

// stub serializer: what the bytes are is C08's subject
type c02Parser struct{}

func (c02Parser) GetName() string                              { return "json" }
func (c02Parser) GetDefaultContent() []byte                    { return []byte("{}") }
func (c02Parser) Encode(l *undo.BranchUndoLog) ([]byte, error) { return []byte("undo"), nil }
func (c02Parser) Decode(b []byte) (*undo.BranchUndoLog, error) { return &undo.BranchUndoLog{}, nil }

func c02Setup() (*c02World, *ATConn, context.Context) {
	w := &c02World{failAt: vrt.Choice("failAt", 7) - 1, regOutcome: vrt.Choice("register", 4), branchID: vrt.Int64("branchId"), reportFails: c02ReportFails[vrt.Choice("reportFails", vrt.Param("reportfailvalues", 3))]}
	vrt.Assume(w.branchID != 0)
	undo.RegisterUndoLogManager(undomysql.NewUndoLogManager())
	undo.UndoConfig.LogSerialization = "json"
	vrt.Redirect((*undoparser.UndoLogParserCache).Load, func(_ *undoparser.UndoLogParserCache, name string) (undoparser.UndoLogParser, error) {
		return c02Parser{}, nil
	})
	vrt.Redirect((*getty.GettyRemotingClient).SendSyncRequest, func(_ *getty.GettyRemotingClient, msg interface{}) (interface{}, error) {
		switch m := msg.(type) {
		case message.BranchRegisterRequest:
			w.lockKeySeen = m.LockKey
			w.ev = append(w.ev, c02Event{"REGISTER", w.regOutcome == 0, w.branchID})
			switch w.regOutcome {
			case 0:
				return message.BranchRegisterResponse{AbstractTransactionResponse: message.AbstractTransactionResponse{
					AbstractResultMessage: message.AbstractResultMessage{ResultCode: message.ResultCodeSuccess}}, BranchId: w.branchID}, nil
			case 1:
				return message.BranchRegisterResponse{AbstractTransactionResponse: message.AbstractTransactionResponse{
					AbstractResultMessage: message.AbstractResultMessage{ResultCode: message.ResultCodeFailed, Msg: "lock conflict"}}}, nil
			case 2:
				return nil, errors.New("wait response timeout")
			}
			return nil, nil
		case message.BranchReportRequest:
			w.reports++
			fails := w.reports <= w.reportFails
			w.ev = append(w.ev, c02Event{"REPORT", !fails, int64(m.Status)})
			if fails {
				return nil, errors.New("wait response timeout")
			}
			return message.BranchReportResponse{AbstractTransactionResponse: message.AbstractTransactionResponse{
				AbstractResultMessage: message.AbstractResultMessage{ResultCode: message.ResultCodeSuccess}}}, nil
		}
		return nil, errors.New("unexpected request")
	})
	mgr := &ATSourceManager{rmRemoting: rm.GetRMRemotingInstance()}
	rm.GetRmCacheInstance().RegisterResourceManager(mgr)
	res := &DBResource{resourceID: "res", dbType: types.DBTypeMySQL}
	c := &ATConn{Conn: &Conn{res: res, txCtx: types.NewTxCtx(), targetConn: &c02Conn{w: w}, autoCommit: true, dbType: types.DBTypeMySQL, dbName: "db"}}
	ctx := tm.InitSeataContext(context.Background())
	tm.SetXID(ctx, vrt.String("xid", 2))
	vrt.Assume(tm.GetXID(ctx) != "")
	return w, c, ctx
}

// c02Business stands for the intercepted business statement: a write on the
// connection, images and lock key recorded in the transaction context.
func c02Business(c *ATConn, ctx context.Context) (types.ExecResult, error) {
	r, err := c.Conn.ExecContext(ctx, "UPDATE t SET a = 1 WHERE id = 1", nil)
	if err != nil {
		return nil, err
	}
	img := &types.RecordImage{TableName: "t", SQLType: types.SQLTypeUpdate, Rows: []types.RowImage{{Columns: []types.ColumnImage{{ColumnName: "id", Value: vrt.Int64("row.id")}}}}}
	c.txCtx.RoundImages.AppendBeofreImage(img)
	c.txCtx.RoundImages.AppendAfterImage(img)
	// lock keys as the executors record them: two statements on rows of one table with
	// arbitrary (string) key values, one on another table
	for _, k := range c02LockKeys() {
		c.txCtx.LockKeys[k] = struct{}{}
	}
	return types.NewResult(types.WithResult(r)), nil
}

var c02Keys []string

// c02LockKeys: "t:<k1>", "t:<k2>", "u:7" with k1, k2 symbolic printable 2-byte strings
// (no ';' or ',': those separate keys on the wire), k1 != k2.
func c02LockKeys() []string {
	if c02Keys == nil {
		k1, k2 := vrt.String("lock.k1", 2), vrt.String("lock.k2", 2)
		for _, k := range []string{k1, k2} {
			for i := 0; i < len(k); i++ {
				vrt.Assume(k[i]-0x21 < 0x5e && k[i] != ';' && k[i] != ',')
			}
		}
		vrt.Assume(k1 != k2)
		c02Keys = []string{"t:" + k1, "t:" + k2, "u:7"}
	}
	return c02Keys
}

// c02Carries: the registration's lock-key text names every recorded key (keys are ';'-separated).
func c02Carries(sent string) bool {
	parts := strings.Split(sent, ";")
	for _, k := range c02LockKeys() {
		found := false
		for _, p := range parts {
			if p == k {
				found = true
			}
		}
		if !found {
			return false
		}
	}
	return true
}

func (w *c02World) idx(kind string, onlyOK bool) int {
	for i, e := range w.ev {
		if e.kind == kind && (e.ok || !onlyOK) {
			return i
		}
	}
	return -1
}

func (w *c02World) count(kind string, onlyOK bool) int {
	n := 0
	for _, e := range w.ev {
		if e.kind == kind && (e.ok || !onlyOK) {
			n++
		}
	}
	return n
}

func c02Check(w *c02World, err error, panicked bool, tag string) {
	vrt.Reach("c02/" + tag + "/done")
	vrt.Assert(!panicked, "c02/no-panic/"+tag)
	if panicked {
		return
	}
	iReg, iUndo, iCommit, iWrite, iBegin := w.idx("REGISTER", false), w.idx("UNDO-INSERT", true), w.idx("COMMIT", true), w.idx("WRITE", true), w.idx("BEGIN", true)
	// ordering
	if iCommit >= 0 {
		vrt.Assert(iReg >= 0 && w.ev[iReg].ok && iReg < iCommit, "c02/commit-only-after-registration/"+tag)
		vrt.Assert(iUndo >= 0 && iUndo < iCommit, "c02/commit-only-after-undo-log/"+tag)
		vrt.Assert(iBegin >= 0 && iBegin < iWrite && iWrite < iUndo, "c02/undo-log-in-the-business-transaction/"+tag)
		vrt.Assert(w.count("BEGIN", true) == 1 && w.count("ROLLBACK", false) == 0, "c02/one-local-transaction/"+tag)
	}
	if iUndo >= 0 {
		vrt.Assert(iReg >= 0 && w.ev[iReg].ok && iReg < iUndo, "c02/undo-log-only-after-registration/"+tag)
	}
	if iReg >= 0 {
		vrt.Assert(c02Carries(w.lockKeySeen), "c02/registration-carries-every-lock-key/"+tag)
	}
	failure := w.faulted || w.regOutcome != 0
	if !failure {
		vrt.Reach("c02/" + tag + "/success")
		vrt.Assert(err == nil, "c02/no-failure=>ok/"+tag)
		vrt.Assert(iCommit >= 0, "c02/no-failure=>committed/"+tag)
		vrt.Assert(w.openTx == 0, "c02/no-open-transaction/"+tag)
		return
	}
	vrt.Reach("c02/" + tag + "/failure")
	vrt.Assert(err != nil, "c02/failure=>error/"+tag)
	vrt.Assert(iCommit < 0, "c02/failure=>nothing-committed/"+tag)
	// the connection is not handed back inside an open transaction, unless the
	// ROLLBACK command itself is what failed
	if w.count("ROLLBACK", false) == w.count("ROLLBACK", true) {
		vrt.Assert(w.openTx == 0, "c02/failure=>local-transaction-rolled-back/"+tag)
	}
	if iReg >= 0 && w.ev[iReg].ok {
		// a registered branch is reported phase-one-failed (at most 5 attempts per report)
		nrep := w.count("REPORT", false)
		vrt.Assert(nrep >= 1, "c02/failure=>registered-branch-reported/"+tag)
		for _, e := range w.ev {
			if e.kind == "REPORT" {
				vrt.Assert(e.arg == int64(branch.BranchStatusPhaseoneFailed), "c02/failure=>report-says-phase-one-failed/"+tag)
			}
		}
		vrt.Assert(nrep <= 5, "c02/report-attempts-bounded/"+tag)
	}
}

// VerifC02Autocommit: a business statement on an autocommit connection.
func VerifC02Autocommit() {
	w, c, ctx := c02Setup()
	var err error
	panicked := false
	func() {
		defer func() {
			if recover() != nil {
				panicked = true
			}
		}()
		if c.createOnceTxContext(ctx) {
			defer func() { c.txCtx = types.NewTxCtx() }()
		}
		_, err = c.createNewTxOnExecIfNeed(ctx, func() (types.ExecResult, error) { return c02Business(c, ctx) })
	}()
	c02Check(w, err, panicked, "autocommit")
}

// VerifC02Explicit: BeginTx, business statement, Commit; the application rolls
// back when the statement fails (documented usage of database/sql).
func VerifC02Explicit() {
	w, c, ctx := c02Setup()
	var err error
	panicked := false
	func() {
		defer func() {
			if recover() != nil {
				panicked = true
			}
		}()
		var tx driver.Tx
		tx, err = c.BeginTx(ctx, driver.TxOptions{})
		if err != nil {
			return
		}
		if _, err = c.createNewTxOnExecIfNeed(ctx, func() (types.ExecResult, error) { return c02Business(c, ctx) }); err != nil {
			tx.Rollback()
			return
		}
		err = tx.Commit()
	}()
	c02Check(w, err, panicked, "explicit")
}

// VerifC03Register (C03, first sentence, last hop): whatever keys the
// statements of a local transaction recorded - several rows of one table,
// string key values of any printable shape, several tables - the registration
// sent before the local commit names every one of them.
func VerifC03Register() {
	w, c, ctx := c02Setup()
	if w.failAt >= 0 || w.regOutcome != 0 || w.reportFails != 0 {
		return // the fault cases are C02's
	}
	var err error
	func() {
		defer func() { recover() }()
		var tx driver.Tx
		tx, err = c.BeginTx(ctx, driver.TxOptions{})
		if err != nil {
			return
		}
		if _, err = c.createNewTxOnExecIfNeed(ctx, func() (types.ExecResult, error) { return c02Business(c, ctx) }); err != nil {
			tx.Rollback()
			return
		}
		err = tx.Commit()
	}()
	vrt.Reach("c03/registered")
	iReg, iCommit := w.idx("REGISTER", true), w.idx("COMMIT", true)
	vrt.Assert(err == nil && iReg >= 0 && iCommit > iReg, "c03/registration-precedes-the-local-commit")
	vrt.Assert(c02Carries(w.lockKeySeen), "c03/registration-names-every-recorded-key")
}
