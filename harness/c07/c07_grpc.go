package grpc

// C07 — an xid carried by the gRPC integration arrives unchanged and makes the
// callee a participant. Real client and server interceptors; the harness copies
// the outgoing metadata into the incoming context as the transport does.

import (
	"context"
	"errors"

	"google.golang.org/grpc"
	"google.golang.org/grpc/metadata"

	"seata.apache.org/seata-go/pkg/protocol/message"
	"seata.apache.org/seata-go/pkg/remoting/getty"
	"seata.apache.org/seata-go/pkg/tm"
	"seata.apache.org/seata-go/pkg/zzverif/vrt"
)

func VerifC07Grpc() {
	tm.InitTm(tm.TmConfig{CommitRetryCount: 1, RollbackRetryCount: 1})
	sent := 0
	vrt.Redirect((*getty.GettyRemotingClient).SendSyncRequest, func(_ *getty.GettyRemotingClient, msg interface{}) (interface{}, error) {
		sent++
		return nil, errors.New("unexpected coordinator request")
	})
	xid := vrt.String("xid", vrt.Param("xidlen", 4))
	vrt.Assume(xid != "")
	base := context.Background()
	// the caller may already carry outgoing metadata: its own headers, or - an intermediary
	// forwarding what it received - an xid header of another (stale) transaction
	switch vrt.Choice("outgoing.metadata", 3) {
	case 1:
		base = metadata.NewOutgoingContext(base, metadata.Pairs("trace-id", "t1"))
	case 2:
		stale := vrt.String("stale.xid", 2)
		vrt.Assume(stale != "" && stale != xid)
		base = metadata.NewOutgoingContext(base, metadata.Pairs([]string{"tx_xid", "TX_XID"}[vrt.Choice("stale.spelling", 2)], stale))
		vrt.Reach("grpc/stale-xid-in-outgoing-metadata")
	}
	caller := tm.InitSeataContext(base)
	tm.SetXID(caller, xid)

	handlerSaw := "?"
	calleeSaw := "?"
	var calleeErr error
	handler := func(ctx context.Context, req interface{}) (interface{}, error) {
		handlerSaw = tm.GetXID(ctx)
		calleeErr = tm.WithGlobalTx(ctx, &tm.GtxConfig{Name: "callee"}, func(c context.Context) error {
			calleeSaw = tm.GetXID(c)
			return nil
		})
		return nil, nil
	}
	invoker := func(ctx context.Context, method string, req, reply interface{}, cc *grpc.ClientConn, opts ...grpc.CallOption) error {
		// the transport: outgoing metadata of the client becomes incoming metadata of the server
		md, _ := metadata.FromOutgoingContext(ctx)
		in := metadata.NewIncomingContext(context.Background(), md)
		_, err := ServerTransactionInterceptor(in, req, nil, handler)
		return err
	}
	err := ClientTransactionInterceptor(caller, "/svc/M", nil, nil, nil, invoker)
	vrt.Reach("grpc/end")
	vrt.Assert(err == nil, "grpc/call-ok")
	vrt.Assert(handlerSaw == xid, "grpc/handler-sees-xid")
	vrt.Assert(calleeSaw == xid && calleeErr == nil, "grpc/callee-joins")
	vrt.Assert(sent == 0, "grpc/callee-never-ends-transaction")
}

// VerifC07GrpcServerSpelling: the server accepts the xid under either header
// spelling, as sent by another client implementation.
func VerifC07GrpcServerSpelling() {
	xid := vrt.String("xid", 3)
	vrt.Assume(xid != "")
	key := []string{"TX_XID", "tx_xid", "Tx_Xid"}[vrt.Choice("spelling", 3)]
	in := metadata.NewIncomingContext(context.Background(), metadata.Pairs(key, xid))
	saw := "?"
	_, err := ServerTransactionInterceptor(in, nil, nil, func(ctx context.Context, req interface{}) (interface{}, error) {
		saw = tm.GetXID(ctx)
		return nil, nil
	})
	vrt.Reach("grpc/spelling")
	vrt.Assert(err == nil && saw == xid, "grpc/server-accepts-spelling")
}

var _ = message.ResultCodeSuccess
