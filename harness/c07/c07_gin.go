package gin

import (
	"context"
	"errors"
	"net/http"

	"github.com/gin-gonic/gin"

	"seata.apache.org/seata-go/pkg/remoting/getty"
	"seata.apache.org/seata-go/pkg/tm"
	"seata.apache.org/seata-go/pkg/zzverif/vrt"
)

func VerifC07Gin() {
	tm.InitTm(tm.TmConfig{CommitRetryCount: 1, RollbackRetryCount: 1})
	sent := 0
	vrt.Redirect((*getty.GettyRemotingClient).SendSyncRequest, func(_ *getty.GettyRemotingClient, msg interface{}) (interface{}, error) {
		sent++
		return nil, errors.New("unexpected coordinator request")
	})
	xid := vrt.String("xid", vrt.Param("xidlen", 4))
	vrt.Assume(xid != "")
	key := []string{"TX_XID", "tx_xid", "Tx_Xid"}[vrt.Choice("spelling", 3)]
	h := http.Header{}
	h.Set(key, xid)
	req := (&http.Request{Header: h}).WithContext(context.Background())
	c := &gin.Context{Request: req}
	TransactionMiddleware()(c)
	ctx := c.Request.Context()
	saw := "?"
	err := tm.WithGlobalTx(ctx, &tm.GtxConfig{Name: "callee"}, func(cc context.Context) error {
		saw = tm.GetXID(cc)
		return nil
	})
	vrt.Reach("gin/end")
	vrt.Assert(tm.GetXID(ctx) == xid, "gin/handler-sees-xid")
	vrt.Assert(err == nil && saw == xid, "gin/callee-joins")
	vrt.Assert(sent == 0, "gin/callee-never-ends-transaction")
}
