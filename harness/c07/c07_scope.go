package tm

// C07 — propagation modes and transaction context across nesting.
// Real WithGlobalTx/begin/useExistGtx/clearTxConf/commitOrRollback and the
// GlobalTransactionManager; coordinator = redirected SendSyncRequest that
// always succeeds (its failures are C04's subject). See DESIGN.md §4 C07.

import (
	"context"
	"errors"

	"seata.apache.org/seata-go/pkg/protocol/message"
	"seata.apache.org/seata-go/pkg/remoting/getty"
	"seata.apache.org/seata-go/pkg/zzverif/vrt"
)

type c07Req struct {
	kind int // 0 begin, 1 commit, 2 rollback
	xid  string
}

type c07Coord struct {
	log  []c07Req
	next int
	xids []string // xids handed out by begin, in order
}

func (c *c07Coord) send(_ *getty.GettyRemotingClient, msg interface{}) (interface{}, error) {
	ok := message.AbstractTransactionResponse{AbstractResultMessage: message.AbstractResultMessage{ResultCode: message.ResultCodeSuccess}}
	switch m := msg.(type) {
	case message.GlobalBeginRequest:
		xid := c.xids[c.next]
		c.next++
		c.log = append(c.log, c07Req{0, xid})
		return message.GlobalBeginResponse{AbstractTransactionResponse: ok, Xid: xid}, nil
	case message.GlobalCommitRequest:
		c.log = append(c.log, c07Req{1, m.Xid})
		return message.GlobalCommitResponse{AbstractGlobalEndResponse: message.AbstractGlobalEndResponse{AbstractTransactionResponse: ok}}, nil
	case message.GlobalRollbackRequest:
		c.log = append(c.log, c07Req{2, m.Xid})
		return message.GlobalRollbackResponse{AbstractGlobalEndResponse: message.AbstractGlobalEndResponse{AbstractTransactionResponse: ok}}, nil
	}
	return nil, errors.New("unexpected request")
}

func c07Setup(nxids int) *c07Coord {
	config = TmConfig{CommitRetryCount: 1, RollbackRetryCount: 1}
	c := &c07Coord{}
	names := []string{"xidA", "xidB", "xidC", "xidD"}
	for i := 0; i < nxids; i++ {
		c.xids = append(c.xids, vrt.String(names[i], 2))
	}
	for i := 0; i < nxids; i++ {
		vrt.Assume(c.xids[i] != "")
		for j := 0; j < i; j++ {
			vrt.Assume(c.xids[i] != c.xids[j])
		}
	}
	vrt.Redirect((*getty.GettyRemotingClient).SendSyncRequest, c.send)
	return c
}

// reference semantics of one scope: what it does given whether a transaction
// is active when it is entered
const (
	c07Join = iota
	c07New
	c07None
	c07Error
)

func c07Ref(p Propagation, hasTx bool) int {
	switch p {
	case Required:
		if hasTx {
			return c07Join
		}
		return c07New
	case RequiresNew:
		return c07New
	case NotSupported:
		return c07None
	case Supports:
		if hasTx {
			return c07Join
		}
		return c07None
	case Never:
		if hasTx {
			return c07Error
		}
		return c07None
	case Mandatory:
		if hasTx {
			return c07Join
		}
		return c07Error
	}
	return c07Error
}

var c07ModeNames = []string{"Required", "RequiresNew", "NotSupported", "Supports", "Never", "Mandatory"}

// VerifC07Step: one scope entered from an arbitrary pre-context (the inductive
// step that makes nesting of any depth work).
func VerifC07Step() {
	coord := c07Setup(1)
	ctx := InitSeataContext(context.Background())
	hasTx := vrt.Bool("pre.hasTx")
	pre := GlobalTransaction{}
	if hasTx {
		pre.Xid = vrt.String("pre.xid", 2)
		vrt.Assume(pre.Xid != "" && pre.Xid != coord.xids[0])
		pre.TxRole = GlobalTransactionRole(1 + vrt.Choice("pre.role", 2)) // Launcher or Participant
		pre.TxName = vrt.String("pre.name", 1)
		pre.TxStatus = message.GlobalStatusBegin
	}
	SetTx(ctx, &pre)

	mode := vrt.Choice("mode", 6)
	p := Propagation(mode)
	fail := vrt.Bool("callback.fails")
	ran := false
	sawXid := "?"
	err := WithGlobalTx(ctx, &GtxConfig{Name: "in", Propagation: p}, func(c context.Context) error {
		ran = true
		sawXid = GetXID(c)
		if fail {
			return errors.New("inner failed")
		}
		return nil
	})

	tag := c07ModeNames[mode]
	if hasTx {
		tag += "/inTx"
	} else {
		tag += "/noTx"
	}
	vrt.Reach("step/" + tag)
	switch c07Ref(p, hasTx) {
	case c07Join:
		vrt.Assert(ran && sawXid == pre.Xid, "step/join/callback-sees-enclosing-xid/"+tag)
		vrt.Assert(len(coord.log) == 0, "step/join/sends-nothing/"+tag)
		vrt.Assert((err != nil) == fail, "step/join/returns-callback-outcome/"+tag)
	case c07New:
		vrt.Assert(ran && sawXid == coord.xids[0], "step/new/callback-sees-new-xid/"+tag)
		want := 1
		if fail {
			want = 2
		}
		vrt.Assert(len(coord.log) == 2 && coord.log[0].kind == 0 && coord.log[1].kind == want && coord.log[1].xid == coord.xids[0], "step/new/begin-then-own-second-phase/"+tag)
		vrt.Assert((err != nil) == fail, "step/new/returns-callback-outcome/"+tag)
	case c07None:
		vrt.Assert(ran && sawXid == "", "step/none/callback-sees-no-xid/"+tag)
		vrt.Assert(len(coord.log) == 0, "step/none/sends-nothing/"+tag)
		vrt.Assert((err != nil) == fail, "step/none/returns-callback-outcome/"+tag)
	default:
		vrt.Assert(!ran, "step/error/callback-not-run/"+tag)
		vrt.Assert(err != nil, "step/error/returns-error/"+tag)
		vrt.Assert(len(coord.log) == 0, "step/error/sends-nothing/"+tag)
	}
	// the enclosing transaction is intact when the scope has ended
	if hasTx {
		post := GetTx(ctx)
		vrt.Assert(post.Xid == pre.Xid, "step/post/xid-intact/"+tag)
		vrt.Assert(post.TxRole == pre.TxRole, "step/post/role-intact/"+tag)
		vrt.Assert(post.TxName == pre.TxName, "step/post/name-intact/"+tag)
	}
}

// VerifC07Tree: an initiator (Required, no enclosing transaction) whose
// callback runs one inner scope, which itself may run a third one (thorough),
// all on the shared context as in local calls.
func VerifC07Tree() {
	depth := vrt.Param("depth", 2)
	coord := c07Setup(depth)
	ctx := context.Background()
	modes := make([]int, depth)
	fails := make([]bool, depth)
	saw := make([]string, depth)
	ran := make([]bool, depth)
	names := []string{"L0", "L1", "L2"}
	for i := 0; i < depth; i++ {
		if i > 0 {
			modes[i] = vrt.Choice(names[i]+".mode", 6)
		}
		fails[i] = vrt.Bool(names[i] + ".fails")
	}
	swallow := vrt.Bool("outer-swallows-inner-error")
	var run func(level int, c context.Context) error
	run = func(level int, c context.Context) error {
		return WithGlobalTx(c, &GtxConfig{Name: names[level], Propagation: Propagation(modes[level])}, func(c2 context.Context) error {
			ran[level] = true
			saw[level] = GetXID(c2)
			if level+1 < depth {
				if e := run(level+1, c2); e != nil && !swallow {
					return e
				}
			}
			if fails[level] {
				return errors.New("failed at " + names[level])
			}
			return nil
		})
	}
	err := run(0, ctx)

	// reference interpretation
	type txn struct {
		xid      string
		commit   bool
		finished bool
	}
	var want []c07Req
	nextXid := 0
	var ref func(level int, cur string) bool // returns whether the scope returned an error
	ref = func(level int, cur string) bool {
		act := c07Ref(Propagation(modes[level]), cur != "")
		if act == c07Error {
			return true
		}
		mine := cur
		switch act {
		case c07New:
			mine = coord.xids[nextXid]
			nextXid++
			want = append(want, c07Req{0, mine})
		case c07None:
			mine = ""
		}
		vrt.Assert(ran[level] && saw[level] == mine, "tree/callback-sees-reference-xid")
		failed := false
		if level+1 < depth {
			if ref(level+1, mine) && !swallow {
				failed = true
			}
		}
		if !failed && fails[level] {
			failed = true
		}
		if act == c07New {
			if failed {
				want = append(want, c07Req{2, mine})
			} else {
				want = append(want, c07Req{1, mine})
			}
		}
		return failed
	}
	wantErr := ref(0, "")
	vrt.Reach("tree/end")
	vrt.Assert((err != nil) == wantErr, "tree/outcome")
	vrt.Assert(len(coord.log) == len(want), "tree/request-count")
	for i := 0; i < len(want) && i < len(coord.log); i++ {
		vrt.Assert(coord.log[i].kind == want[i].kind && coord.log[i].xid == want[i].xid, "tree/request-sequence")
	}
}

// VerifC07Remote: a callee that received the xid over RPC (fresh context
// carrying only the xid) is a participant and never ends the transaction.
func VerifC07Remote() {
	coord := c07Setup(1)
	xid := vrt.String("remote.xid", 3)
	vrt.Assume(xid != "")
	ctx := InitSeataContext(context.Background())
	SetXID(ctx, xid)
	mode := []Propagation{Required, Supports, Mandatory}[vrt.Choice("mode", 3)]
	fail := vrt.Bool("callback.fails")
	saw := ""
	err := WithGlobalTx(ctx, &GtxConfig{Name: "callee", Propagation: mode}, func(c context.Context) error {
		saw = GetXID(c)
		if fail {
			return errors.New("callee failed")
		}
		return nil
	})
	vrt.Reach("remote/end")
	vrt.Assert(saw == xid, "remote/callee-sees-carried-xid")
	vrt.Assert(len(coord.log) == 0, "remote/participant-sends-nothing")
	vrt.Assert((err != nil) == fail, "remote/outcome")
}
