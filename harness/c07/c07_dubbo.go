package dubbo

import (
	"context"
	"errors"

	"dubbo.apache.org/dubbo-go/v3/protocol"

	"seata.apache.org/seata-go/pkg/remoting/getty"
	"seata.apache.org/seata-go/pkg/tm"
	"seata.apache.org/seata-go/pkg/zzverif/vrt"
)

type c07Invocation struct {
	protocol.Invocation
	att map[string]interface{}
}

func (i *c07Invocation) SetAttachment(key string, value interface{}) { i.att[key] = value }
func (i *c07Invocation) GetAttachmentWithDefaultValue(key string, def string) string {
	if v, ok := i.att[key]; ok {
		if s, ok := v.(string); ok {
			return s
		}
	}
	return def
}

type c07Invoker struct {
	protocol.Invoker
	fn func(ctx context.Context, inv protocol.Invocation) protocol.Result
}

func (i *c07Invoker) Invoke(ctx context.Context, inv protocol.Invocation) protocol.Result {
	return i.fn(ctx, inv)
}

func VerifC07Dubbo() {
	tm.InitTm(tm.TmConfig{CommitRetryCount: 1, RollbackRetryCount: 1})
	sent := 0
	vrt.Redirect((*getty.GettyRemotingClient).SendSyncRequest, func(_ *getty.GettyRemotingClient, msg interface{}) (interface{}, error) {
		sent++
		return nil, errors.New("unexpected coordinator request")
	})
	xid := vrt.String("xid", vrt.Param("xidlen", 4))
	vrt.Assume(xid != "")
	f := &dubboTransactionFilter{}
	caller := tm.InitSeataContext(context.Background())
	tm.SetXID(caller, xid)

	// consumer side: the filter attaches the xid. The outbound invocation may already carry
	// an xid (dubbo-go copies the attachments a handler received into the calls it makes
	// with that context): the xid of the calling scope wins
	wire := &c07Invocation{att: map[string]interface{}{}}
	if vrt.Bool("outbound.invocation.carries.a.stale.xid") {
		wire.att["SEATA_XID"], wire.att["TX_XID"] = "10.9.9.9:8091:1", "10.9.9.9:8091:1"
		vrt.Assume(xid != "10.9.9.9:8091:1")
	}
	downstream := "?"
	f.Invoke(caller, &c07Invoker{fn: func(ctx context.Context, inv protocol.Invocation) protocol.Result {
		downstream = tm.GetXID(ctx)
		return nil
	}}, wire)
	vrt.Assert(wire.att["SEATA_XID"] == interface{}(xid) && wire.att["TX_XID"] == interface{}(xid), "dubbo/consumer-sends-the-xid-of-the-calling-scope")
	vrt.Assert(downstream == xid, "dubbo/consumer-chain-keeps-the-xid-of-the-calling-scope")

	// provider side: a fresh context, the attachments as received; a Java
	// consumer sends only one of the spellings
	recv := &c07Invocation{att: map[string]interface{}{}}
	switch vrt.Choice("peer", 4) {
	case 0: // seata-go consumer: everything the filter attached
		for k, v := range wire.att {
			recv.att[k] = v
		}
	case 1:
		recv.att["SEATA_XID"] = xid
	case 2:
		recv.att["TX_XID"] = xid
	default:
		recv.att["tx_xid"] = xid
	}
	handlerSaw, calleeSaw := "?", "?"
	var calleeErr error
	f.Invoke(context.Background(), &c07Invoker{fn: func(ctx context.Context, inv protocol.Invocation) protocol.Result {
		handlerSaw = tm.GetXID(ctx)
		calleeErr = tm.WithGlobalTx(ctx, &tm.GtxConfig{Name: "callee"}, func(c context.Context) error {
			calleeSaw = tm.GetXID(c)
			return nil
		})
		return nil
	}}, recv)
	vrt.Reach("dubbo/end")
	vrt.Assert(handlerSaw == xid, "dubbo/handler-sees-xid")
	vrt.Assert(calleeSaw == xid && calleeErr == nil, "dubbo/callee-joins")
	vrt.Assert(sent == 0, "dubbo/callee-never-ends-transaction")
}
