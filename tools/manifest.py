#!/usr/bin/env python3
"""Regenerates /verif/MANIFEST.json from tools/claims.json (claimed checks + not-applicable reasons)."""
import json
props=[json.loads(l)['id'] for l in open('/verif/properties.jsonl')]
claims=json.load(open('/verif/tools/claims.json'))
checks=[]
for pid in props:
    c=claims['checks'].get(pid)
    if not c: continue
    checks.append({"property_id":pid,"quick_cmd":f"/verif/bin/check {pid} --tier quick","thorough_cmd":f"/verif/bin/check {pid} --tier thorough",
      "evidence_file":f"/verif/evidence/{pid}.json","replay_cmd_template":f"/verif/bin/check {pid} --replay {{path}}","engine":"gosym",
      "level_claimed":{"category":"model_checking","text":c['text'],"design_ref":f"DESIGN.md section 4, {pid}"},
      "level_note":c['note'],"technique":"bounded symbolic execution of go/ssa + SMT solvers (z3; cvc5 as second opinion on queries z3 leaves unknown), counterexamples replayed natively"})
na=[{"property_id":p,"reason":claims['not_applicable'].get(p,"check not built yet (work in progress)")} for p in props if p not in claims['checks']]
m={"version":1,
 "setup_cmd":"cd /verif/engine && GOFLAGS=-mod=mod GOPROXY=off GOSUMDB=off GOTOOLCHAIN=local go build -o /verif/bin/gosym ./cmd/gosym",
 "hooks":{"guard":"verif","enable":"no source hooks: harness files and the vrt runtime are injected with go/packages and `go test -overlay` overlays; nothing under /repo is needed","baseline_off_cmd":"cd /repo && go test -mod=mod -json -vet=off -count=1 -timeout 25m ./...","source_commits":[],"add_only":True},
 "engines":[{"name":"gosym","path":"/verif/engine","serves_properties":[c['property_id'] for c in checks],"kind_free_text":"bounded symbolic execution of go/ssa with SMT (z3, cvc5 as second opinion on unknown), DFS by re-execution over 14 workers, native replay of counterexamples through go test -overlay"}],
 "checks":checks,"not_applicable":na,
 "notes":"exit 0 = every obligation discharged within the registered bounds; exit 1 + VIOLATION line = solver counterexample reproduced natively; exit 2 = infrastructure failure (harness no longer compiles against the tree, unreachable witness). See DESIGN.md."}
json.dump(m,open('/verif/MANIFEST.json','w'),indent=1)
print("checks:",[c['property_id'] for c in checks])
