#!/usr/bin/env python3
"""Regenerate the table of section 9.7 of DESIGN.md (and the counts in its first paragraph) from seeded/*/meta.json."""
import glob, json, os, re
root = os.path.dirname(os.path.dirname(os.path.abspath(__file__)))
rows = []
for d in sorted(glob.glob(os.path.join(root, 'seeded', '*'))):
    p = os.path.join(d, 'meta.json')
    if not os.path.exists(p):
        continue
    m = json.load(open(p))
    rows.append((m['property'], os.path.basename(d), m['summary'][:170].replace('|', '/').replace('\n', ' '),
                 m['detected_by'].replace('|', '/'), m['history'].replace('|', '/')))
rows.sort()
first = sum(1 for r in rows if r[4].startswith('caught by the check as'))
table = '| property | `seeded/…` | the change | detected by | history |\n|---|---|---|---|---|\n'
table += ''.join('| %s | %s | %s | %s | %s |\n' % r for r in rows)
p = os.path.join(root, 'DESIGN.md')
s = open(p).read()
a = s.index('| property | `seeded/…` | the change |')
b = s.index('\n### 9.8')
s = s[:a] + table + s[b:]
s = re.sub(r'Each of the \d+ changes compiles', 'Each of the %d changes compiles' % len(rows), s)
s = re.sub(r'\d+ were caught by the check as it stood', '%d were caught by the check as it stood' % first, s)
open(p, 'w').write(s)
print(len(rows), 'seeded changes,', first, 'caught as first built')
