#!/bin/bash
# seedcheck.sh <worktree> <PROP> <name>: confirm a seeded change (demo fails with it, passes without, suite builds),
# run the property's check against it in /repo, undo, and store it under /verif/seeded/<name>/
set -u
export GOFLAGS=-mod=mod GOPROXY=off GOSUMDB=off GOTOOLCHAIN=local
WT=$1; PROP=$2; NAME=$3
cd $WT || exit 2
DEMO=$(python3 -c "import json;print(json.load(open('SEED_meta.json'))['demo_test'])")
DEMOPKG=./$(dirname $DEMO)
echo "== demo with change"; go test -vet=off -count=1 -gcflags=all=-l -run 'TestSeed' $DEMOPKG 2>&1 | tail -3
git diff -- . ':!SEED_*' ':!*zz_seed_demo_test.go' > /tmp/seed_src.diff
git stash -q -- $(git diff --name-only -- . ':!SEED_*')
echo "== demo without change"; go test -vet=off -count=1 -gcflags=all=-l -run 'TestSeed' $DEMOPKG 2>&1 | tail -3
git stash pop -q
echo "== build + touched package tests (demo skipped)"; go build ./... && go test -vet=off -count=1 -skip 'TestSeed' $DEMOPKG 2>&1 | tail -2
echo "== check $PROP against the change"
cd /repo && git apply /tmp/seed_src.diff && (cd /verif && timeout 1800 bin/check $PROP 2>&1 | grep -v '^  \.\.' | tail -12 | cut -c1-300); cd /repo && git checkout -- . && git status --short | head -3
mkdir -p /verif/seeded/$NAME && cp /tmp/seed_src.diff /verif/seeded/$NAME/patch.diff && cp $WT/$DEMO /verif/seeded/$NAME/ && cp $WT/SEED_meta.json /verif/seeded/$NAME/agent_meta.json
