#!/bin/bash
# run every claimed check's quick (or $1) tier on the current /repo tree; one summary line each
tier=${1:-quick}
cd /verif
for p in $(python3 -c "import json;print(' '.join(sorted(json.load(open('tools/claims.json'))['checks'])))"); do
  out=$(timeout 7200 bin/check $p --tier $tier 2>&1); rc=$?
  echo "$p rc=$rc $(echo "$out" | grep -E '^SUMMARY' | tail -1)"
  echo "$out" | grep -E '^(VIOLATION|UNCONFIRMED|INFRA-FAILURE|VALIDATION-MISMATCH|INCONCLUSIVE)' | sort | uniq -c | head -5
done
