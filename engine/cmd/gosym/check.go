package main

import (
	"bufio"
	"bytes"
	"encoding/json"
	"flag"
	"fmt"
	"os"
	"os/exec"
	"path/filepath"
	"sort"
	"strconv"
	"strings"
	"time"

	"verif/engine/interp"
)

const (
	repoDir  = "/repo"
	modPath  = "seata.apache.org/seata-go"
	verifDir = "/verif"
)

type TierCfg struct {
	Params        map[string]int `json:"params"`
	Unwind        int            `json:"unwind"`
	MaxAlloc      int            `json:"max_alloc"`
	StepBudget    int64          `json:"step_budget"`
	MaxPaths      int            `json:"max_paths"`
	ConcretizeCap int            `json:"concretize_cap"`
	TimeoutMs     int            `json:"timeout_ms"`
	Skip          bool           `json:"skip"`
	Validate      int            `json:"validate"`
	SchedChoice   bool           `json:"sched_choice"`
}

type EntrySpec struct {
	Name     string             `json:"name"`
	Tiers    map[string]TierCfg `json:"tiers"`
	Reach    []string           `json:"reach"`
	Panic    string             `json:"panic"`    // "violation" (default) | "ignore"
	Deadlock string             `json:"deadlock"` // "violation" (default) | "ignore"
	Note     string             `json:"note"`
	// NativeFailureIsViolation: the harness runs deterministically natively; an
	// assertion that fails in the native validation run of a path the engine
	// passed (a stub hiding what the real library does) is reported as a violation
	NativeFailureIsViolation bool `json:"native_failure_is_violation"`
}

type UnitSpec struct {
	Pkg     string      `json:"pkg"`
	Files   []string    `json:"files"`
	// harness files overlaid into other packages: package dir -> files
	ExtraFiles map[string][]string `json:"extra_files"`
	Extra   []string    `json:"extra_patterns"`
	Entries []EntrySpec `json:"entries"`
}

type Spec struct {
	Property    string     `json:"property"`
	Units       []UnitSpec `json:"units"`
	Assumptions []string   `json:"assumptions"`
	Stubs       []string   `json:"stubs"`
	Bounds      map[string]string `json:"bounds"`
}

type Finding struct {
	Property string `json:"property"`
	Entry    string `json:"entry"`
	Label    string `json:"label"`
	Status   string `json:"status"` // open | fixed
	What     string `json:"what"`
	Commit   string `json:"commit,omitempty"`
}

func loadFindings() []Finding {
	var fs []Finding
	f, err := os.Open(filepath.Join(verifDir, "known_findings.jsonl"))
	if err != nil {
		return nil
	}
	defer f.Close()
	sc := bufio.NewScanner(f)
	sc.Buffer(make([]byte, 1<<20), 1<<20)
	for sc.Scan() {
		line := strings.TrimSpace(sc.Text())
		if line == "" || strings.HasPrefix(line, "#") {
			continue
		}
		var x Finding
		if json.Unmarshal([]byte(line), &x) == nil {
			fs = append(fs, x)
		}
	}
	return fs
}

type replayResult struct {
	failLabel string
	panicked  bool
	done      bool
	skipped   bool
	obs       map[string]string
	out       string
}

// replayer builds the native test binary for one unit once and runs cex files against it.
type replayer struct {
	unit    UnitSpec
	propDir string
	scratch string
	bin     string
	err     error
}

func newReplayer(prop string, u UnitSpec) *replayer {
	r := &replayer{unit: u, propDir: filepath.Join(verifDir, "harness", strings.ToLower(prop))}
	return r
}

func (r *replayer) build() error {
	if r.bin != "" || r.err != nil {
		return r.err
	}
	scratch, err := os.MkdirTemp("", "gosym-replay-")
	if err != nil {
		r.err = err
		return err
	}
	r.scratch = scratch
	pkgDir := filepath.Join(repoDir, r.unit.Pkg)
	// package name: read from the first harness file
	first, _ := os.ReadFile(filepath.Join(r.propDir, r.unit.Files[0]))
	pkgName := ""
	for _, ln := range strings.Split(string(first), "\n") {
		if strings.HasPrefix(ln, "package ") {
			pkgName = strings.TrimSpace(strings.TrimPrefix(ln, "package "))
			break
		}
	}
	var tb strings.Builder
	fmt.Fprintf(&tb, "package %s\n\nimport (\n\t\"testing\"\n\t\"%s/pkg/zzverif/vrt\"\n)\n\nfunc TestVerifReplay(t *testing.T) {\n\tvrt.Replay(t, map[string]func(){\n", pkgName, modPath)
	for _, e := range r.unit.Entries {
		fmt.Fprintf(&tb, "\t\t%q: %s,\n", e.Name, e.Name)
	}
	tb.WriteString("\t})\n}\n")
	testFile := filepath.Join(scratch, "replay_test.go")
	os.WriteFile(testFile, []byte(tb.String()), 0o644)
	repl := map[string]string{
		filepath.Join(pkgDir, "zz_verif_replay_test.go"):    testFile,
		filepath.Join(repoDir, "pkg/zzverif/vrt/vrt.go"): filepath.Join(verifDir, "harness/vrt/vrt.go"),
	}
	for _, f := range r.unit.Files {
		repl[filepath.Join(pkgDir, "zz_verif_"+filepath.Base(f))] = filepath.Join(r.propDir, f)
	}
	for dir, fs := range r.unit.ExtraFiles {
		for _, f := range fs {
			repl[filepath.Join(repoDir, dir, "zz_verif_"+filepath.Base(f))] = filepath.Join(r.propDir, f)
		}
	}
	// the package's own tests (TestMain, init functions that patch the code under
	// test) must not run inside the replay binary: blank them out
	if tests, _ := filepath.Glob(filepath.Join(pkgDir, "*_test.go")); len(tests) > 0 {
		for k, tf := range tests {
			src, _ := os.ReadFile(tf)
			clause := "package " + pkgName
			for _, ln := range strings.Split(string(src), "\n") {
				if strings.HasPrefix(ln, "package ") {
					clause = strings.TrimSpace(ln)
					break
				}
			}
			stub := filepath.Join(scratch, fmt.Sprintf("blank_%d_test.go", k))
			os.WriteFile(stub, []byte(clause+"\n"), 0o644)
			repl[tf] = stub
		}
	}
	ov, _ := json.Marshal(map[string]interface{}{"Replace": repl})
	ovFile := filepath.Join(scratch, "overlay.json")
	os.WriteFile(ovFile, ov, 0o644)
	r.bin = filepath.Join(scratch, "replay.test")
	cmd := exec.Command("go", "test", "-mod=mod", "-overlay", ovFile, "-c", "-o", r.bin, "-vet=off", "-gcflags=all=-l", r.unit.Pkg)
	cmd.Dir = repoDir
	cmd.Env = append(os.Environ(), "GOFLAGS=-mod=mod", "GOPROXY=off", "GOSUMDB=off", "GOTOOLCHAIN=local")
	out, err := cmd.CombinedOutput()
	if err != nil {
		r.err = fmt.Errorf("building native replay binary: %v\n%s", err, out)
		r.bin = ""
	}
	return r.err
}

func (r *replayer) run(cexPath string) (*replayResult, error) {
	if err := r.build(); err != nil {
		return nil, err
	}
	cmd := exec.Command(r.bin, "-test.run", "^TestVerifReplay$", "-test.count=1", "-test.timeout=120s")
	cmd.Dir = filepath.Join(repoDir, r.unit.Pkg)
	cmd.Env = append(os.Environ(), "VERIF_CEX="+cexPath)
	var buf bytes.Buffer
	cmd.Stdout = &buf
	cmd.Stderr = &buf
	cmd.Run()
	res := &replayResult{obs: map[string]string{}, out: buf.String()}
	for _, ln := range strings.Split(res.out, "\n") {
		ln = strings.TrimSpace(ln)
		switch {
		case strings.HasPrefix(ln, "VRT-FAIL label="):
			res.failLabel = strings.TrimPrefix(ln, "VRT-FAIL label=")
		case strings.HasPrefix(ln, "VRT-PANIC"):
			res.panicked = true
		case ln == "VRT-DONE":
			res.done = true
		case ln == "VRT-ASSUME-FALSE":
			res.skipped = true
		case strings.HasPrefix(ln, "VRT-OBS "):
			kv := strings.SplitN(strings.TrimPrefix(ln, "VRT-OBS "), "=", 2)
			if len(kv) == 2 {
				res.obs[kv[0]] = kv[1]
			}
		case strings.HasPrefix(ln, "panic:") || strings.HasPrefix(ln, "fatal error:"):
			res.panicked = true
		}
	}
	return res, nil
}

func (r *replayer) close() {
	if r.scratch != "" {
		os.RemoveAll(r.scratch)
	}
}

func cmdCheck(args []string) int {
	fs := flag.NewFlagSet("check", flag.ExitOnError)
	tier := fs.String("tier", "", "quick|thorough")
	replay := fs.String("replay", "", "replay one counterexample file natively")
	workers := fs.Int("workers", 14, "")
	only := fs.String("entry", "", "run only this entry")
	noReplay := fs.Bool("no-replay", false, "skip native replay (debugging)")
	var prop string
	if len(args) > 0 && !strings.HasPrefix(args[0], "-") {
		prop = args[0]
		args = args[1:]
	}
	fs.Parse(args)
	if prop == "" {
		fmt.Fprintln(os.Stderr, "usage: gosym check <PROPERTY> [--tier quick|thorough] [--replay file]")
		return 2
	}
	if *tier == "" {
		*tier = os.Getenv("VERIF_TIER")
	}
	if *tier == "" {
		*tier = "quick"
	}
	seed, _ := strconv.ParseInt(os.Getenv("VERIF_SEED"), 10, 64)
	specPath := filepath.Join(verifDir, "harness", strings.ToLower(prop), "spec.json")
	sb, err := os.ReadFile(specPath)
	if err != nil {
		fmt.Fprintln(os.Stderr, "no spec:", err)
		return 2
	}
	var spec Spec
	if err := json.Unmarshal(sb, &spec); err != nil {
		fmt.Fprintln(os.Stderr, "bad spec:", err)
		return 2
	}
	if *replay != "" {
		return doReplay(&spec, *replay)
	}
	start := time.Now()
	outDir := filepath.Join(verifDir, "out", prop)
	os.RemoveAll(outDir)
	os.MkdirAll(outDir, 0o755)
	findings := loadFindings()

	type entryOut struct {
		Entry string
		Rep   *interp.EntryReport
		Cfg   TierCfg
	}
	var all []entryOut
	infra := []string{}
	nViol, nKnown, nUnconf, nValidated, nValMismatch := 0, 0, 0, 0, 0
	cexN := 0
	var violLines, knownLines, otherLines []string
	funcs := map[string]bool{}
	knownSeen := map[string]bool{}

	for _, u := range spec.Units {
		ls := interp.LoadSpec{RepoDir: repoDir, ModPath: modPath, Patterns: append([]string{u.Pkg}, u.Extra...),
			Overlay: map[string]string{}, VrtDir: filepath.Join(verifDir, "harness/vrt"), ModelsDir: filepath.Join(verifDir, "harness/models")}
		propDir := filepath.Join(verifDir, "harness", strings.ToLower(prop))
		for _, f := range u.Files {
			ls.Overlay[filepath.Join(repoDir, u.Pkg, "zz_verif_"+filepath.Base(f))] = filepath.Join(propDir, f)
		}
		for dir, fs := range u.ExtraFiles {
			for _, f := range fs {
				ls.Overlay[filepath.Join(repoDir, dir, "zz_verif_"+filepath.Base(f))] = filepath.Join(propDir, f)
			}
		}
		p, err := interp.Load(ls)
		if err != nil {
			fmt.Fprintf(os.Stderr, "INFRA: cannot load %s with harness: %v\n", u.Pkg, err)
			infra = append(infra, "load "+u.Pkg+": "+err.Error())
			continue
		}
		sp := p.Pkgs[modPath+"/"+strings.TrimPrefix(u.Pkg, "./")]
		rp := newReplayer(prop, u)
		for _, e := range u.Entries {
			if *only != "" && e.Name != *only {
				continue
			}
			tc, ok := e.Tiers[*tier]
			if !ok {
				tc = e.Tiers["quick"]
			}
			if tc.Skip {
				continue
			}
			fn := sp.Func(e.Name)
			if fn == nil {
				infra = append(infra, "entry not found: "+e.Name)
				continue
			}
			cfg := interp.DefaultConfig()
			cfg.Workers = *workers
			cfg.Seed = seed
			cfg.Params = tc.Params
			if tc.Unwind > 0 {
				cfg.Unwind = tc.Unwind
			}
			if tc.MaxAlloc > 0 {
				cfg.MaxAlloc = tc.MaxAlloc
			}
			if tc.StepBudget > 0 {
				cfg.StepBudget = tc.StepBudget
			}
			if tc.MaxPaths > 0 {
				cfg.MaxPaths = tc.MaxPaths
			}
			if tc.ConcretizeCap > 0 {
				cfg.ConcretizeCap = tc.ConcretizeCap
			}
			if tc.TimeoutMs > 0 {
				cfg.TimeoutMs = tc.TimeoutMs
			} else if *tier == "thorough" {
				cfg.TimeoutMs = 120000
			}
			if tc.Validate > 0 {
				cfg.Validate = tc.Validate
			}
			cfg.SchedChoice = tc.SchedChoice
			cfg.StopAfterViolation = 45 * time.Second
			cfg.NoStopLabels = map[string]bool{}
			for _, f := range findings {
				if f.Property == prop && f.Status == "open" && (f.Entry == "" || f.Entry == e.Name) {
					cfg.NoStopLabels[f.Label] = true
				}
			}
			ex := &interp.Explorer{P: p, Cfg: cfg}
			rep := ex.Explore(fn)
			all = append(all, entryOut{e.Name, rep, tc})
			for f := range rep.Funcs {
				funcs[f] = true
			}
			fmt.Fprintf(os.Stderr, "[%s] %s: paths=%d %v obligations=%d discharged=%d violations=%d solverq=%d (%.1fs solver, %.1fs wall)\n",
				prop, e.Name, rep.Paths, rep.ByStatus, rep.Obligations, rep.Discharged, len(rep.Violations), rep.SolverQ, rep.SolverTime.Seconds(), rep.Wall.Seconds())
			// infrastructure conditions
			for _, l := range e.Reach {
				if rep.Reached[l] == 0 {
					infra = append(infra, fmt.Sprintf("%s: witness %q unreachable (vacuity)", e.Name, l))
				}
			}
			if rep.ByStatus["ok"]+rep.ByStatus["panic"] == 0 {
				infra = append(infra, e.Name+": no path completed")
			}
			for _, w := range rep.Inconclusive {
				otherLines = append(otherLines, fmt.Sprintf("INCONCLUSIVE property=%s entry=%s %s", prop, e.Name, firstLine(w)))
			}
			for _, w := range rep.Unwound {
				otherLines = append(otherLines, fmt.Sprintf("INCONCLUSIVE(unwound) property=%s entry=%s %s", prop, e.Name, firstLine(w)))
			}
			if rep.StoppedEarly {
				otherLines = append(otherLines, fmt.Sprintf("NOTE property=%s entry=%s exploration stopped %v after the first violating model (verdict already decided)", prop, e.Name, cfg.StopAfterViolation))
			} else if rep.Truncated {
				otherLines = append(otherLines, fmt.Sprintf("INCONCLUSIVE(truncated) property=%s entry=%s path limit %d reached", prop, e.Name, cfg.MaxPaths))
			}
			for _, l := range rep.UnknownObl {
				otherLines = append(otherLines, fmt.Sprintf("INCONCLUSIVE(solver-unknown) property=%s entry=%s label=%s", prop, e.Name, l))
			}
			// violations: group by label, replay up to 2 per label
			byLabel := map[string][]*interp.Violation{}
			var labels []string
			for _, v := range rep.Violations {
				if v.Kind == "panic" && e.Panic == "ignore" {
					continue
				}
				if v.Kind == "deadlock" && e.Deadlock == "ignore" {
					continue
				}
				if _, ok := byLabel[v.Label]; !ok {
					labels = append(labels, v.Label)
				}
				byLabel[v.Label] = append(byLabel[v.Label], v)
			}
			sort.Strings(labels)
			for _, label := range labels {
				vs := byLabel[label]
				// known finding?
				var kf *Finding
				for k := range findings {
					f := &findings[k]
					if f.Property == prop && f.Label == label && (f.Entry == "" || f.Entry == e.Name) && f.Status == "open" {
						kf = f
					}
				}
				confirmed := false
				var confPath string
				tries := vs
				if len(tries) > 4 {
					// spread over the models found (the first ones tend to share one shape)
					tries = []*interp.Violation{vs[0], vs[len(vs)/3], vs[2*len(vs)/3], vs[len(vs)-1]}
				}
				for _, v := range tries {
					cexN++
					path := filepath.Join(outDir, fmt.Sprintf("cex-%d.json", cexN))
					b, _ := json.MarshalIndent(v, "", " ")
					os.WriteFile(path, b, 0o644)
					if *noReplay {
						confirmed, confPath = true, path
						break
					}
					rr, err := rp.run(path)
					if err != nil {
						infra = append(infra, err.Error())
						break
					}
					ok := false
					switch v.Kind {
					case "assert":
						ok = rr.failLabel == v.Label
					case "panic":
						ok = rr.panicked
					case "deadlock":
						ok = !rr.done && !rr.panicked && rr.failLabel == ""
					}
					if ok {
						confirmed, confPath = true, path
						break
					}
					os.WriteFile(path+".native.txt", []byte(rr.out), 0o644)
				}
				if !confirmed {
					nUnconf++
					otherLines = append(otherLines, fmt.Sprintf("UNCONFIRMED property=%s entry=%s label=%s (solver model did not reproduce natively; %d candidates)", prop, e.Name, label, len(vs)))
					continue
				}
				if kf != nil {
					nKnown++
					key := e.Name + "|" + label
					if !knownSeen[key] {
						knownSeen[key] = true
						knownLines = append(knownLines, fmt.Sprintf("KNOWN-FINDING: property=%s entry=%s label=%s %s", prop, e.Name, label, kf.What))
					}
					continue
				}
				nViol++
				violLines = append(violLines, fmt.Sprintf("VIOLATION property=%s replay=%s", prop, confPath))
				fmt.Fprintf(os.Stderr, "  violated: entry=%s label=%s (%d models)\n", e.Name, label, len(vs))
			}
			// translator validation: ok-path models must run clean natively
			if !*noReplay {
				for k, v := range rep.ValModels {
					path := filepath.Join(outDir, fmt.Sprintf("val-%s-%d.json", e.Name, k))
					b, _ := json.MarshalIndent(v, "", " ")
					os.WriteFile(path, b, 0o644)
					rr, err := rp.run(path)
					if err != nil {
						infra = append(infra, err.Error())
						break
					}
					mism := ""
					if !rr.done && !rr.skipped {
						mism = "native run did not complete: fail=" + rr.failLabel
					}
					for l, pv := range v.Predicted {
						if nv, ok := rr.obs[l]; ok && pv != "?" && nv != pv {
							mism += fmt.Sprintf(" obs %s: engine %s native %s;", l, pv, nv)
						}
					}
					if e.NativeFailureIsViolation && !rr.done && !rr.skipped && rr.failLabel != "" {
						listed := false
						for k := range findings {
							f := &findings[k]
							if f.Property == prop && f.Label == rr.failLabel && (f.Entry == "" || f.Entry == e.Name) && f.Status == "open" {
								listed = true
								if !knownSeen[e.Name+"\x00"+rr.failLabel] {
									knownSeen[e.Name+"\x00"+rr.failLabel] = true
									nKnown++
									knownLines = append(knownLines, fmt.Sprintf("KNOWN-FINDING: property=%s entry=%s label=%s %s", prop, e.Name, rr.failLabel, f.What))
								}
							}
						}
						if !listed {
							nViol++
							violLines = append(violLines, fmt.Sprintf("VIOLATION property=%s replay=%s", prop, path))
							fmt.Fprintf(os.Stderr, "  violated natively (the engine's model of a stubbed library passed it): entry=%s label=%s\n", e.Name, rr.failLabel)
						}
						continue
					}
					if mism != "" {
						nValMismatch++
						otherLines = append(otherLines, fmt.Sprintf("VALIDATION-MISMATCH property=%s entry=%s %s (%s)", prop, e.Name, mism, path))
					} else {
						nValidated++
						os.Remove(path)
					}
				}
			}
		}
		rp.close()
	}

	// ---- evidence ----
	cov := map[string]interface{}{}
	states, trans, obl, dis := 0, 0, 0, 0
	var samples []interface{}
	entriesEv := []map[string]interface{}{}
	var sq int
	var st, mq time.Duration
	inconc, unwound := 0, 0
	for _, eo := range all {
		r := eo.Rep
		states += r.Paths
		trans += r.Transitions
		obl += r.Obligations
		dis += r.Discharged
		sq += r.SolverQ
		st += r.SolverTime
		if r.MaxQuery > mq {
			mq = r.MaxQuery
		}
		inconc += r.ByStatus["inconclusive"]
		unwound += r.ByStatus["unwound"]
		for k, s := range r.Samples {
			if k < 2 {
				s["entry"] = eo.Entry
				samples = append(samples, s)
			}
		}
		labels := map[string]int{}
		for _, v := range r.Violations {
			labels[v.Label]++
		}
		entriesEv = append(entriesEv, map[string]interface{}{
			"entry": eo.Entry, "paths": r.Paths, "by_status": r.ByStatus, "decisions": r.Transitions,
			"obligations": r.Obligations, "discharged_unsat": r.Discharged - r.ConcreteOK, "discharged_concrete": r.ConcreteOK,
			"violating_models_by_label": labels, "reach_witnesses": r.Reached, "stated_bounds_that_cut": r.BoundsHit,
			"solver_queries": r.SolverQ, "solver_time_s": round3(r.SolverTime.Seconds()), "max_query_s": round3(r.MaxQuery.Seconds()),
			"second_opinion_queries": r.FallbackQ, "second_opinion_decided": r.FallbackDec,
			"solver_unknown": r.UnknownFeas, "instructions": r.Steps, "wall_s": round3(r.Wall.Seconds()), "params": eo.Cfg.Params,
			"truncated": r.Truncated,
		})
	}
	if trans == 0 {
		trans = 1
	}
	var fl []string
	for f := range funcs {
		fl = append(fl, f)
	}
	sort.Strings(fl)
	if len(samples) == 0 {
		samples = append(samples, map[string]interface{}{"note": "no completed path"})
	}
	cov["states"] = states
	cov["transitions"] = trans
	cov["traces_validated_against_impl"] = nValidated
	cov["samples"] = samples
	cov["obligations"] = obl
	cov["discharged"] = dis
	cov["entries"] = entriesEv
	cov["functions_encoded"] = fl
	cov["stubs"] = spec.Stubs
	cov["bounds"] = spec.Bounds
	cov["solver"] = "z3 4.8.12 (incremental, one process per worker); cvc5 1.0.3 one-shot as second opinion on queries z3 leaves unknown"
	cov["solver_queries"] = sq
	cov["solver_time_s"] = round3(st.Seconds())
	cov["max_query_s"] = round3(mq.Seconds())
	cov["inconclusive_paths"] = inconc
	cov["unwound_paths"] = unwound
	cov["unconfirmed_models"] = nUnconf
	cov["known_findings_hit"] = nKnown
	cov["validation_mismatches"] = nValMismatch
	cov["exhaustive"] = false
	cov["explanation"] = "states = symbolic paths completed (each covers all values of the symbolic inputs satisfying its path condition); transitions = branch/choice decisions; obligations = vrt.Assert instances reached; discharged = those proved (solver unsat, or concretely true)"
	ev := map[string]interface{}{
		"property_id": prop, "tier": *tier, "seed": seed, "level": "model_checking", "coverage": cov,
		"assumptions": spec.Assumptions, "wall_s": round3(time.Since(start).Seconds()), "violations": nViol,
	}
	if states == 0 {
		cov["states"] = 1 // schema minimum; the run is reported as infrastructure failure below
	}
	os.MkdirAll(filepath.Join(verifDir, "evidence"), 0o755)
	eb, _ := json.MarshalIndent(ev, "", " ")
	if strings.HasPrefix(prop, "ST") {
		// engine self-tests are not properties: their report stays with the scratch output
		os.WriteFile(filepath.Join(verifDir, "out", prop, "evidence.json"), eb, 0o644)
	} else {
		os.WriteFile(filepath.Join(verifDir, "evidence", prop+".json"), eb, 0o644)
	}

	for _, l := range otherLines {
		fmt.Println(l)
	}
	for _, l := range knownLines {
		fmt.Println(l)
	}
	for _, l := range violLines {
		fmt.Println(l)
	}
	fmt.Printf("SUMMARY property=%s tier=%s paths=%d obligations=%d discharged=%d violations=%d known=%d unconfirmed=%d inconclusive=%d unwound=%d validated=%d wall=%.1fs\n",
		prop, *tier, states, obl, dis, nViol, nKnown, nUnconf, inconc, unwound, nValidated, time.Since(start).Seconds())
	if nViol > 0 {
		return 1
	}
	if len(infra) > 0 {
		for _, m := range infra {
			fmt.Println("INFRA-FAILURE:", firstLine(m))
		}
		return 2
	}
	return 0
}

func firstLine(s string) string {
	if k := strings.IndexByte(s, '\n'); k >= 0 {
		return s[:k]
	}
	return s
}

func round3(f float64) float64 { return float64(int64(f*1000+0.5)) / 1000 }

func doReplay(spec *Spec, path string) int {
	if abs, err := filepath.Abs(path); err == nil {
		path = abs
	}
	b, err := os.ReadFile(path)
	if err != nil {
		fmt.Fprintln(os.Stderr, err)
		return 2
	}
	var v interp.Violation
	if err := json.Unmarshal(b, &v); err != nil {
		fmt.Fprintln(os.Stderr, err)
		return 2
	}
	for _, u := range spec.Units {
		for _, e := range u.Entries {
			if e.Name == v.Entry {
				rp := newReplayer(spec.Property, u)
				defer rp.close()
				rr, err := rp.run(path)
				if err != nil {
					fmt.Fprintln(os.Stderr, err)
					return 2
				}
				fmt.Print(rr.out)
				ok := false
				switch v.Kind {
				case "assert":
					ok = rr.failLabel == v.Label
				case "panic":
					ok = rr.panicked
				case "deadlock":
					ok = !rr.done && !rr.panicked && rr.failLabel == ""
				}
				if ok {
					fmt.Printf("VIOLATION property=%s replay=%s\n", spec.Property, path)
					return 1
				}
				fmt.Println("not reproduced")
				return 0
			}
		}
	}
	fmt.Fprintln(os.Stderr, "entry not found in spec:", v.Entry)
	return 2
}
