// gosym: bounded symbolic execution of Go SSA with an SMT solver.
package main

import (
	"encoding/json"
	"flag"
	"fmt"
	"os"
	"path/filepath"
	"strings"
	"time"

	"verif/engine/interp"
)

func main() {
	if len(os.Args) < 2 {
		fmt.Fprintln(os.Stderr, "usage: gosym run|check ...")
		os.Exit(2)
	}
	switch os.Args[1] {
	case "run":
		cmdRun(os.Args[2:])
	case "check":
		os.Exit(cmdCheck(os.Args[2:]))
	default:
		fmt.Fprintln(os.Stderr, "unknown command", os.Args[1])
		os.Exit(2)
	}
}

func cmdRun(args []string) {
	fs := flag.NewFlagSet("run", flag.ExitOnError)
	pkg := fs.String("pkg", "", "package pattern relative to /repo, e.g. ./pkg/remoting/getty")
	harness := fs.String("harness", "", "comma separated harness files to overlay into the package dir")
	entry := fs.String("entry", "", "entry function")
	workers := fs.Int("workers", 8, "workers")
	trace := fs.Bool("trace", false, "trace instructions")
	maxPaths := fs.Int("maxpaths", 200000, "")
	unwind := fs.Int("unwind", 40, "")
	solver := fs.String("solver", "z3", "")
	fs.Parse(args)
	spec := interp.LoadSpec{RepoDir: "/repo", ModPath: "seata.apache.org/seata-go", Patterns: []string{*pkg},
		Overlay: map[string]string{}, VrtDir: "/verif/harness/vrt", ModelsDir: "/verif/harness/models"}
	for _, h := range strings.Split(*harness, ",") {
		spec.Overlay[filepath.Join("/repo", *pkg, "zz_verif_"+filepath.Base(h))] = h
	}
	t0 := time.Now()
	p, err := interp.Load(spec)
	if err != nil {
		fmt.Fprintln(os.Stderr, err)
		os.Exit(2)
	}
	fmt.Fprintf(os.Stderr, "loaded in %v\n", time.Since(t0))
	pkgPath := "seata.apache.org/seata-go/" + strings.TrimPrefix(*pkg, "./")
	sp := p.Pkgs[pkgPath]
	if sp == nil {
		fmt.Fprintln(os.Stderr, "package not found:", pkgPath)
		os.Exit(2)
	}
	fn := sp.Func(*entry)
	if fn == nil {
		fmt.Fprintln(os.Stderr, "entry not found:", *entry)
		os.Exit(2)
	}
	cfg := interp.DefaultConfig()
	cfg.Workers = *workers
	cfg.Trace = *trace
	cfg.MaxPaths = *maxPaths
	cfg.Unwind = *unwind
	cfg.Solver = *solver
	ex := &interp.Explorer{P: p, Cfg: cfg}
	rep := ex.Explore(fn)
	rep.Funcs = nil
	b, _ := json.MarshalIndent(rep, "", " ")
	fmt.Println(string(b))
}
