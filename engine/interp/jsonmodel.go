package interp

// Model of encoding/json (Marshal / Unmarshal) at the level of the JSON data
// model: Marshal builds a tree from the Go value following the package's rules
// (struct tags, omitempty, embedded structs, Marshaler / TextMarshaler with
// addressability, pointers, interfaces, maps sorted by key, []byte as base64,
// integers exact, floats, invalid UTF-8 coerced); Unmarshal decodes a tree into
// the target following its rules (interface{} gets float64 / string / bool /
// []interface{} / map[string]interface{}, integers range-checked, exact then
// case-insensitive field match, Unmarshaler / TextUnmarshaler, allocation of
// pointers, maps, slices). When every leaf is concrete the bytes are the real
// JSON text; otherwise the produced []byte / string is a handle (docByte
// cells) that survives copying and string<->[]byte conversion and whose bytes
// cannot be inspected (any inspection ends the path as inconclusive).
// Trusted: that the textual encoding/decoding of encoding/json is the
// inverse pair the tree model assumes.

import (
	"bytes"
	stdjson "encoding/json"
	"fmt"
	"go/types"
	"io"
	"reflect"
	"sort"
	"strconv"
	"strings"

	"golang.org/x/tools/go/ssa"

	"verif/engine/smt"
)

type jkind int

const (
	jNull jkind = iota
	jBool
	jInt
	jFloat
	jStr
	jArr
	jObj
)

type jnode struct {
	kind   jkind
	t      *smt.Term // jBool: Bool; jInt: BV; jFloat: FP64
	signed bool
	s      Str
	elems  []*jnode
	raw    *Str     // jStr: the string before invalid UTF-8 was replaced (rendering)
	keys   []string // jObj: concrete member names, parallel to elems
	// the decimal text of the number is not what the term says exactly (float32)
	inexact string
}

type jsonDoc struct {
	root *jnode
	n    int
}

// docByte is the k-th byte of the (unrendered) text of a symbolic document.
type docByte struct {
	doc *jsonDoc
	k   int
}

func (i *Interp) docBytes(root *jnode) []value {
	txt, _ := i.jsonRender(root, true)
	n := len(txt)
	if n < 2 {
		n = 2
	}
	d := &jsonDoc{root: root, n: n}
	r := make([]value, n)
	for k := range r {
		r[k] = docByte{d, k}
	}
	return r
}

// docOfBytes recognises a complete, unmodified document handle.
func docOfBytes(b []value) *jsonDoc {
	if len(b) == 0 {
		return nil
	}
	d0, ok := b[0].(docByte)
	if !ok || d0.k != 0 || d0.doc.n != len(b) {
		return nil
	}
	for k, e := range b {
		d, ok := e.(docByte)
		if !ok || d.doc != d0.doc || d.k != k {
			return nil
		}
	}
	return d0.doc
}

func allConstBytes(b []value) ([]byte, bool) {
	out := make([]byte, len(b))
	for k, e := range b {
		t, ok := e.(*smt.Term)
		if !ok || !t.IsConst() {
			return nil, false
		}
		out[k] = byte(t.C)
	}
	return out, true
}

func (i *Interp) constBytes(s string) []value {
	r := make([]value, len(s))
	for k := 0; k < len(s); k++ {
		r[k] = i.ctx.Const(smt.BV(8), uint64(s[k]))
	}
	return r
}

// jsonRender renders the tree; ok=false if a leaf is symbolic (then, with
// approx, placeholders are used and only the length is meaningful).
func (i *Interp) jsonRender(n *jnode, approx bool) (string, bool) {
	var sb strings.Builder
	ok := i.jsonRenderTo(&sb, n, approx)
	return sb.String(), ok
}

func (i *Interp) jsonRenderTo(sb *strings.Builder, n *jnode, approx bool) bool {
	ok := true
	switch n.kind {
	case jNull:
		sb.WriteString("null")
	case jBool:
		if n.t.IsConst() {
			if n.t.C != 0 {
				sb.WriteString("true")
			} else {
				sb.WriteString("false")
			}
		} else {
			ok = false
			sb.WriteString("true")
		}
	case jInt:
		if n.t.IsConst() {
			if n.signed {
				sb.WriteString(strconv.FormatInt(smt.SignExtend(n.t.C, n.t.Sort.W), 10))
			} else {
				sb.WriteString(strconv.FormatUint(n.t.C, 10))
			}
		} else {
			ok = false
			sb.WriteString("0")
		}
	case jFloat:
		if n.t.IsConst() && n.inexact == "" {
			b, err := stdjson.Marshal(smt.BitsToFloat(n.t.Sort, n.t.C))
			if err != nil {
				ok = false
			}
			sb.Write(b)
		} else if n.t.IsConst() && n.inexact == "float32" {
			b, err := stdjson.Marshal(float32(smt.BitsToFloat(n.t.Sort, n.t.C)))
			if err != nil {
				ok = false
			}
			sb.Write(b)
		} else {
			ok = false
			sb.WriteString("0")
		}
	case jStr:
		src := n.s
		if n.raw != nil {
			src = *n.raw
		}
		if cs, c := src.Concrete(); c {
			b, _ := stdjson.Marshal(cs)
			sb.Write(b)
		} else {
			ok = false
			sb.WriteString("\"")
			sb.WriteString(strings.Repeat("x", n.s.Len()))
			sb.WriteString("\"")
		}
	case jArr:
		sb.WriteString("[")
		for k, e := range n.elems {
			if k > 0 {
				sb.WriteString(",")
			}
			if !i.jsonRenderTo(sb, e, approx) {
				ok = false
			}
		}
		sb.WriteString("]")
	case jObj:
		sb.WriteString("{")
		for k, e := range n.elems {
			if k > 0 {
				sb.WriteString(",")
			}
			kb, _ := stdjson.Marshal(n.keys[k])
			sb.Write(kb)
			sb.WriteString(":")
			if !i.jsonRenderTo(sb, e, approx) {
				ok = false
			}
		}
		sb.WriteString("}")
	}
	return ok
}

// ---- text -> tree (concrete input) ----

func jsonParseText(jctx *smt.Ctx, b []byte) (*jnode, error) {
	if !stdjson.Valid(b) {
		var x interface{}
		err := stdjson.Unmarshal(b, &x)
		if err == nil {
			err = fmt.Errorf("invalid JSON")
		}
		return nil, err
	}
	dec := stdjson.NewDecoder(bytes.NewReader(b))
	dec.UseNumber()
	n, err := jsonParseValue(jctx, dec)
	if err != nil {
		return nil, err
	}
	if _, err := dec.Token(); err != io.EOF {
		return nil, fmt.Errorf("invalid character after top-level value")
	}
	return n, nil
}

func jsonParseValue(jctx *smt.Ctx, dec *stdjson.Decoder) (*jnode, error) {
	tok, err := dec.Token()
	if err != nil {
		return nil, err
	}
	return jsonParseFrom(jctx, dec, tok)
}

func jsonParseFrom(jctx *smt.Ctx, dec *stdjson.Decoder, tok stdjson.Token) (*jnode, error) {
	switch x := tok.(type) {
	case nil:
		return &jnode{kind: jNull}, nil
	case bool:
		return &jnode{kind: jBool, t: jctx.BoolC(x)}, nil
	case string:
		return &jnode{kind: jStr, s: Str{s: x}}, nil
	case stdjson.Number:
		s := string(x)
		if !strings.ContainsAny(s, ".eE") {
			if v, err := strconv.ParseInt(s, 10, 64); err == nil {
				return &jnode{kind: jInt, t: jctx.Const(smt.BV(64), uint64(v)), signed: true}, nil
			}
			if v, err := strconv.ParseUint(s, 10, 64); err == nil {
				return &jnode{kind: jInt, t: jctx.Const(smt.BV(64), v)}, nil
			}
		}
		f, err := strconv.ParseFloat(s, 64)
		if err != nil {
			return &jnode{kind: jFloat, t: jctx.FConst(smt.FP(64), f), inexact: "out of range " + s}, nil
		}
		n := &jnode{kind: jFloat, t: jctx.FConst(smt.FP(64), f)}
		if strconv.FormatFloat(f, 'g', -1, 64) != s && strconv.FormatFloat(f, 'f', -1, 64) != s {
			n.inexact = "text " + s
		}
		return n, nil
	case stdjson.Delim:
		switch x {
		case '[':
			n := &jnode{kind: jArr}
			for dec.More() {
				e, err := jsonParseValue(jctx, dec)
				if err != nil {
					return nil, err
				}
				n.elems = append(n.elems, e)
			}
			if _, err := dec.Token(); err != nil {
				return nil, err
			}
			return n, nil
		case '{':
			n := &jnode{kind: jObj}
			for dec.More() {
				kt, err := dec.Token()
				if err != nil {
					return nil, err
				}
				ks, ok := kt.(string)
				if !ok {
					return nil, fmt.Errorf("object key is not a string")
				}
				e, err := jsonParseValue(jctx, dec)
				if err != nil {
					return nil, err
				}
				n.keys = append(n.keys, ks)
				n.elems = append(n.elems, e)
			}
			if _, err := dec.Token(); err != nil {
				return nil, err
			}
			return n, nil
		}
	}
	return nil, fmt.Errorf("unexpected token %v", tok)
}

// ---- Go value -> tree ----

type jsonErr struct{ err value } // a target-level error value (iface)

func (i *Interp) jsonHasMethod(t types.Type, name string, nparams int) *ssa.Function {
	m := i.findMethod(t, name)
	if m == nil {
		return nil
	}
	sig := m.Signature
	if sig.Params().Len() != nparams {
		return nil
	}
	return m
}

func (i *Interp) jsonError(msg string) value {
	return i.newError(Str{s: msg}, nil)
}

func isNilIface(v value) bool {
	x, ok := v.(iface)
	return !ok || x.t == nil
}

// jsonTreeOfBytes turns the result of a MarshalJSON method into a subtree.
func (i *Interp) jsonTreeOfBytes(b value, what string) *jnode {
	bs, ok := b.([]value)
	if !ok {
		i.abort(stInconclusive, what+" returned unsupported bytes")
	}
	if d := docOfBytes(bs); d != nil {
		return d.root
	}
	cb, ok := allConstBytes(bs)
	if !ok {
		i.abort(stInconclusive, what+" built JSON text from symbolic bytes (not modelled)")
	}
	n, err := jsonParseText(i.ctx, cb)
	if err != nil {
		i.abort(stInconclusive, what+" returned invalid JSON: "+err.Error())
	}
	return n
}

// jsonEncode returns the tree of v (of static type t). addr, when non-nil,
// points at the cell holding v (v is addressable).
func (i *Interp) jsonEncode(t types.Type, v value, addr *value, depth int) (*jnode, value) {
	if depth > 64 {
		i.abort(stInconclusive, "json.Marshal: value nested deeper than 64 (cycle?)")
	}
	if p, ok := v.(poison); ok {
		i.abort(stInconclusive, "json.Marshal of unsupported value: "+p.why)
	}
	_, isPtr := t.Underlying().(*types.Pointer)
	_, isIface := t.Underlying().(*types.Interface)
	// Marshaler / TextMarshaler
	if !isIface {
		if !isPtr && addr != nil {
			pt := types.NewPointer(t)
			if i.jsonHasMethod(t, "MarshalJSON", 0) == nil {
				if m := i.jsonHasMethod(pt, "MarshalJSON", 0); m != nil {
					return i.jsonCallMarshaler(m, addr, false)
				}
			}
		}
		if m := i.jsonHasMethod(t, "MarshalJSON", 0); m != nil {
			if isPtr && isNilValue(v) {
				return &jnode{kind: jNull}, nil
			}
			return i.jsonCallMarshaler(m, v, false)
		}
		if !isPtr && addr != nil {
			pt := types.NewPointer(t)
			if i.jsonHasMethod(t, "MarshalText", 0) == nil {
				if m := i.jsonHasMethod(pt, "MarshalText", 0); m != nil {
					return i.jsonCallMarshaler(m, addr, true)
				}
			}
		}
		if m := i.jsonHasMethod(t, "MarshalText", 0); m != nil {
			if isPtr && isNilValue(v) {
				return &jnode{kind: jNull}, nil
			}
			return i.jsonCallMarshaler(m, v, true)
		}
	}
	c := i.ctx
	switch u := t.Underlying().(type) {
	case *types.Basic:
		info := u.Info()
		switch {
		case info&types.IsBoolean != 0:
			return &jnode{kind: jBool, t: v.(*smt.Term)}, nil
		case info&types.IsInteger != 0:
			return &jnode{kind: jInt, t: v.(*smt.Term), signed: info&types.IsUnsigned == 0}, nil
		case info&types.IsFloat != 0:
			ft := v.(*smt.Term)
			inf := c.FCmp(smt.OpFEq, c.FBin(smt.OpFSub, ft, ft), c.FConst(ft.Sort, 0)) // x-x==0 iff finite
			if !inf.IsConst() || inf.C == 0 {
				if !i.decide(inf, "json-float-finite") {
					return nil, i.jsonError("json: unsupported value: NaN or Inf")
				}
			}
			if ft.Sort.W == 32 {
				return &jnode{kind: jFloat, t: c.FToF(ft, smt.FP(64)), inexact: "float32"}, nil
			}
			return &jnode{kind: jFloat, t: ft}, nil
		case info&types.IsString != 0:
			orig := v.(Str)
			return &jnode{kind: jStr, s: i.jsonValidUTF8(orig), raw: &orig}, nil
		}
		return nil, i.jsonError("json: unsupported type: " + t.String())
	case *types.Interface:
		x := v.(iface)
		if x.t == nil {
			return &jnode{kind: jNull}, nil
		}
		return i.jsonEncode(x.t, x.v, nil, depth+1)
	case *types.Pointer:
		p, ok := v.(*value)
		if !ok {
			i.abort(stInconclusive, fmt.Sprintf("json.Marshal: pointer of shape %T", v))
		}
		if p == nil {
			return &jnode{kind: jNull}, nil
		}
		return i.jsonEncode(u.Elem(), *p, p, depth+1)
	case *types.Struct:
		st := v.(structure)
		n := &jnode{kind: jObj}
		if err := i.jsonEncodeFields(n, u, st, addr != nil, depth); err != nil {
			return nil, err
		}
		return n, nil
	case *types.Map:
		m, _ := v.(*mapv)
		if m == nil {
			return &jnode{kind: jNull}, nil
		}
		type kv struct {
			k string
			e *mapEntry
		}
		var kvs []kv
		for _, e := range m.live() {
			var ks string
			switch kx := e.k.(type) {
			case Str:
				cs, ok := kx.Concrete()
				if !ok {
					i.abort(stInconclusive, "json.Marshal: map with a symbolic key")
				}
				ks = cs
			case *smt.Term:
				if !kx.IsConst() {
					i.abort(stInconclusive, "json.Marshal: map with a symbolic key")
				}
				if isSigned(u.Key()) {
					ks = strconv.FormatInt(smt.SignExtend(kx.C, kx.Sort.W), 10)
				} else {
					ks = strconv.FormatUint(kx.C, 10)
				}
			default:
				i.abort(stInconclusive, "json.Marshal: map key kind not modelled")
			}
			kvs = append(kvs, kv{ks, e})
		}
		sort.Slice(kvs, func(a, b int) bool { return kvs[a].k < kvs[b].k })
		n := &jnode{kind: jObj}
		for _, x := range kvs {
			e, err := i.jsonEncode(u.Elem(), x.e.v, nil, depth+1)
			if err != nil {
				return nil, err
			}
			n.keys = append(n.keys, x.k)
			n.elems = append(n.elems, e)
		}
		return n, nil
	case *types.Slice:
		s, _ := v.([]value)
		if s == nil {
			return &jnode{kind: jNull}, nil
		}
		if eb, ok := u.Elem().Underlying().(*types.Basic); ok && eb.Kind() == types.Uint8 &&
			i.jsonHasMethod(types.NewPointer(u.Elem()), "MarshalJSON", 0) == nil && i.jsonHasMethod(types.NewPointer(u.Elem()), "MarshalText", 0) == nil {
			if d := docOfBytes(s); d != nil {
				i.abort(stInconclusive, "json.Marshal: JSON document embedded as []byte (base64 of a symbolic document)")
			}
			return &jnode{kind: jStr, s: i.base64Encode(s)}, nil
		}
		n := &jnode{kind: jArr}
		for k := range s {
			e, err := i.jsonEncode(u.Elem(), s[k], &s[k], depth+1)
			if err != nil {
				return nil, err
			}
			n.elems = append(n.elems, e)
		}
		return n, nil
	case *types.Array:
		a := v.(array)
		n := &jnode{kind: jArr}
		for k := range a {
			var ea *value
			if addr != nil {
				ea = &a[k]
			}
			e, err := i.jsonEncode(u.Elem(), a[k], ea, depth+1)
			if err != nil {
				return nil, err
			}
			n.elems = append(n.elems, e)
		}
		return n, nil
	}
	return nil, i.jsonError("json: unsupported type: " + t.String())
}

func (i *Interp) jsonCallMarshaler(m *ssa.Function, recv value, text bool) (*jnode, value) {
	r := i.callSSA(nil, m, []value{recv}, nil).(tuple)
	if !isNilIface(r[1]) {
		return nil, r[1]
	}
	if text {
		bs, ok := r[0].([]value)
		if !ok {
			i.abort(stInconclusive, "MarshalText returned unsupported bytes")
		}
		ts := make([]*smt.Term, len(bs))
		for k, e := range bs {
			t, ok := e.(*smt.Term)
			if !ok {
				i.abort(stInconclusive, "MarshalText returned unsupported bytes")
			}
			ts[k] = t
		}
		return &jnode{kind: jStr, s: i.jsonValidUTF8(mkStr(ts))}, nil
	}
	return i.jsonTreeOfBytes(r[0], m.String()), nil
}

type jfield struct {
	name      string
	index     []int
	omitEmpty bool
	typ       types.Type
}

// jsonFields lists the JSON-visible fields of a struct type (simplified
// encoding/json typeFields: no conflict resolution between embedded levels).
func jsonFields(st *types.Struct, prefix []int, seen map[*types.Struct]bool) []jfield {
	if seen[st] {
		return nil
	}
	seen[st] = true
	defer delete(seen, st)
	var out []jfield
	for k := 0; k < st.NumFields(); k++ {
		f := st.Field(k)
		tag := reflect.StructTag(st.Tag(k)).Get("json")
		if tag == "-" {
			continue
		}
		name, opts, _ := strings.Cut(tag, ",")
		idx := append(append([]int{}, prefix...), k)
		if f.Anonymous() {
			ft := f.Type()
			if p, ok := ft.Underlying().(*types.Pointer); ok {
				ft = p.Elem()
			}
			es, isStruct := ft.Underlying().(*types.Struct)
			if !f.Exported() && !isStruct {
				continue
			}
			if name == "" && isStruct {
				out = append(out, jsonFields(es, idx, seen)...)
				continue
			}
		} else if !f.Exported() {
			continue
		}
		if name == "" {
			name = f.Name()
		}
		jf := jfield{name: name, index: idx, typ: f.Type()}
		for _, o := range strings.Split(opts, ",") {
			switch o {
			case "omitempty":
				jf.omitEmpty = true
			case "string":
				jf.name = "\x00unsupported-string-option"
			}
		}
		out = append(out, jf)
	}
	return out
}

func (i *Interp) jsonEmpty(t types.Type, v value) bool {
	switch u := t.Underlying().(type) {
	case *types.Basic:
		switch x := v.(type) {
		case *smt.Term:
			var z *smt.Term
			if x.Sort.K == smt.KFP {
				z = i.ctx.FCmp(smt.OpFEq, x, i.ctx.FConst(x.Sort, 0))
			} else if x.Sort.K == smt.KBool {
				z = i.ctx.Not(x)
			} else {
				z = i.ctx.Eq(x, i.ctx.Const(x.Sort, 0))
			}
			if z.IsConst() {
				return z.C != 0
			}
			return i.decide(z, "json-omitempty")
		case Str:
			if x.opaque {
				i.abort(stInconclusive, "json omitempty on opaque string")
			}
			return x.Len() == 0
		}
	case *types.Pointer, *types.Interface:
		return isNilValue(v)
	case *types.Map:
		m, _ := v.(*mapv)
		return m.len() == 0
	case *types.Slice:
		s, _ := v.([]value)
		return len(s) == 0
	case *types.Array:
		return u.Len() == 0
	}
	return false
}

func (i *Interp) jsonEncodeFields(n *jnode, st *types.Struct, sv structure, addressable bool, depth int) value {
	for _, f := range jsonFields(st, nil, map[*types.Struct]bool{}) {
		if strings.HasPrefix(f.name, "\x00") {
			i.abort(stInconclusive, "json struct tag option ',string' not modelled")
		}
		// walk the index path
		cur := sv
		var cell *value
		okPath := true
		curAddr := addressable
		var ct types.Type = st
		for d, k := range f.index {
			cell = &cur[k]
			ct = ct.Underlying().(*types.Struct).Field(k).Type()
			if d == len(f.index)-1 {
				break
			}
			switch x := (*cell).(type) {
			case structure:
				cur = x
			case *value:
				if x == nil {
					okPath = false
				} else {
					cur = (*x).(structure)
					curAddr = true
					ct = ct.Underlying().(*types.Pointer).Elem()
				}
			default:
				okPath = false
			}
			if !okPath {
				break
			}
		}
		if !okPath {
			continue
		}
		if f.omitEmpty && i.jsonEmpty(f.typ, *cell) {
			continue
		}
		var fa *value
		if curAddr {
			fa = cell
		}
		e, err := i.jsonEncode(f.typ, *cell, fa, depth+1)
		if err != nil {
			return err
		}
		n.keys = append(n.keys, f.name)
		n.elems = append(n.elems, e)
	}
	return nil
}

// jsonValidUTF8: encoding/json replaces invalid UTF-8 by U+FFFD.
func (i *Interp) jsonValidUTF8(s Str) Str {
	if s.opaque {
		return s
	}
	if cs, ok := s.Concrete(); ok {
		return Str{s: strings.ToValidUTF8(cs, "\uFFFD")}
	}
	// all ASCII? (one fork); otherwise run the real coercion on the symbolic bytes
	c := i.ctx
	ascii := c.True
	for _, t := range s.terms(c) {
		ascii = c.And(ascii, c.ULT(t, c.Const(smt.BV(8), 0x80)))
	}
	if i.decide(ascii, "json-string-ascii") {
		return s
	}
	f := i.lookupFunc("strings", "ToValidUTF8")
	if f == nil {
		i.abort(stInconclusive, "strings.ToValidUTF8 not loaded")
	}
	return i.callSSA(nil, f, []value{s, Str{s: "\uFFFD"}}, nil).(Str)
}

func (i *Interp) base64Std() value {
	p := i.P.Pkgs["encoding/base64"]
	if p == nil {
		i.abort(stInconclusive, "encoding/base64 not loaded")
	}
	g, _ := p.Members["StdEncoding"].(*ssa.Global)
	if g == nil {
		i.abort(stInconclusive, "base64.StdEncoding not found")
	}
	return *i.global(g)
}

func (i *Interp) base64Encode(b []value) Str {
	enc := i.base64Std()
	m := i.findMethod(types.NewPointer(i.lookupType("encoding/base64", "Encoding")), "EncodeToString")
	if m == nil {
		i.abort(stInconclusive, "base64 EncodeToString not found")
	}
	return i.callSSA(nil, m, []value{enc, b}, nil).(Str)
}

func (i *Interp) base64Decode(s Str) ([]value, value) {
	enc := i.base64Std()
	m := i.findMethod(types.NewPointer(i.lookupType("encoding/base64", "Encoding")), "DecodeString")
	if m == nil {
		i.abort(stInconclusive, "base64 DecodeString not found")
	}
	r := i.callSSA(nil, m, []value{enc, s}, nil).(tuple)
	b, _ := r[0].([]value)
	return b, r[1]
}

// ---- tree -> Go value ----

type jsonDecoder struct {
	i        *Interp
	firstErr value
}

func (d *jsonDecoder) fail(msg string) {
	if d.firstErr == nil {
		d.firstErr = d.i.jsonError(msg)
	}
}

func jkindName(n *jnode) string {
	switch n.kind {
	case jNull:
		return "null"
	case jBool:
		return "bool"
	case jInt, jFloat:
		return "number"
	case jStr:
		return "string"
	case jArr:
		return "array"
	}
	return "object"
}

// natural builds the value json stores into an interface{}.
func (d *jsonDecoder) natural(n *jnode) iface {
	i := d.i
	switch n.kind {
	case jNull:
		return iface{}
	case jBool:
		return iface{t: types.Typ[types.Bool], v: n.t}
	case jInt:
		return iface{t: types.Typ[types.Float64], v: i.ctx.FFromInt(n.t, n.signed, smt.FP(64))}
	case jFloat:
		if n.inexact != "" {
			i.abort(stInconclusive, "json: number whose text is not modelled exactly ("+n.inexact+") decoded into interface{}")
		}
		return iface{t: types.Typ[types.Float64], v: n.t}
	case jStr:
		return iface{t: types.Typ[types.String], v: n.s}
	case jArr:
		s := make([]value, len(n.elems))
		for k, e := range n.elems {
			s[k] = d.natural(e)
		}
		return iface{t: types.NewSlice(types.NewInterfaceType(nil, nil).Complete()), v: s}
	}
	et := types.NewInterfaceType(nil, nil).Complete()
	m := newMap(types.Typ[types.String])
	for k, e := range n.elems {
		i.mapSet(m, Str{s: n.keys[k]}, d.natural(e))
	}
	return iface{t: types.NewMap(types.Typ[types.String], et), v: m}
}

func (d *jsonDecoder) bytesOf(n *jnode) []value {
	i := d.i
	if txt, ok := i.jsonRender(n, false); ok {
		return i.constBytes(txt)
	}
	return i.docBytes(n)
}

// decode stores n into the cell p of type t.
func (d *jsonDecoder) decode(n *jnode, t types.Type, p *value, depth int) {
	i := d.i
	if depth > 64 {
		i.abort(stInconclusive, "json.Unmarshal: nesting deeper than 64")
	}
	if po, ok := (*p).(poison); ok {
		i.abort(stInconclusive, "json.Unmarshal into unsupported value: "+po.why)
	}
	_, isPtr := t.Underlying().(*types.Pointer)
	_, isIface := t.Underlying().(*types.Interface)
	if !isPtr && !isIface {
		pt := types.NewPointer(t)
		if m := i.jsonHasMethod(pt, "UnmarshalJSON", 1); m != nil {
			r := i.callSSA(nil, m, []value{p, d.bytesOf(n)}, nil)
			if !isNilIface(r) && d.firstErr == nil {
				d.firstErr = r
			}
			return
		}
		if n.kind == jStr {
			if m := i.jsonHasMethod(pt, "UnmarshalText", 1); m != nil {
				if n.s.opaque {
					i.abort(stInconclusive, "UnmarshalText of opaque string")
				}
				ts := n.s.terms(i.ctx)
				bs := make([]value, len(ts))
				for k, t := range ts {
					bs[k] = t
				}
				r := i.callSSA(nil, m, []value{p, bs}, nil)
				if !isNilIface(r) && d.firstErr == nil {
					d.firstErr = r
				}
				return
			}
		}
	}
	if n.kind == jNull {
		switch t.Underlying().(type) {
		case *types.Pointer, *types.Interface, *types.Map, *types.Slice:
			*p = i.zero(t)
		}
		return
	}
	c := i.ctx
	switch u := t.Underlying().(type) {
	case *types.Pointer:
		pp, _ := (*p).(*value)
		if pp == nil {
			cell := i.zero(u.Elem())
			pp = &cell
			*p = pp
		}
		d.decode(n, u.Elem(), pp, depth+1)
	case *types.Interface:
		cur := (*p).(iface)
		if cur.t != nil {
			if pt, ok := cur.t.Underlying().(*types.Pointer); ok {
				if pp, _ := cur.v.(*value); pp != nil {
					d.decode(n, pt.Elem(), pp, depth+1)
					return
				}
			}
		}
		if u.NumMethods() != 0 {
			d.fail("json: cannot unmarshal " + jkindName(n) + " into Go value of type " + t.String())
			return
		}
		*p = d.natural(n)
	case *types.Basic:
		info := u.Info()
		switch {
		case info&types.IsBoolean != 0:
			if n.kind != jBool {
				d.fail("json: cannot unmarshal " + jkindName(n) + " into Go value of type " + t.String())
				return
			}
			*p = n.t
		case info&types.IsInteger != 0:
			if n.kind == jFloat {
				if !n.t.IsConst() || n.inexact != "" {
					i.abort(stInconclusive, "json: symbolic float decoded into an integer field")
				}
				f := smt.BitsToFloat(n.t.Sort, n.t.C)
				if f != float64(int64(f)) || f >= 1e21 || f <= -1e21 {
					d.fail("json: cannot unmarshal number into Go value of type " + t.String())
					return
				}
				n = &jnode{kind: jInt, t: c.Const(smt.BV(64), uint64(int64(f))), signed: true}
			}
			if n.kind != jInt {
				d.fail("json: cannot unmarshal " + jkindName(n) + " into Go value of type " + t.String())
				return
			}
			so, _ := sortOf(t)
			v, fits := i.intFits(n.t, n.signed, so.W, info&types.IsUnsigned == 0)
			if !fits.IsConst() {
				if !i.decide(fits, "json-int-range") {
					d.fail("json: cannot unmarshal number into Go value of type " + t.String())
					return
				}
			} else if fits.C == 0 {
				d.fail("json: cannot unmarshal number into Go value of type " + t.String())
				return
			}
			*p = v
		case info&types.IsFloat != 0:
			so, _ := sortOf(t)
			switch n.kind {
			case jInt:
				*p = c.FFromInt(n.t, n.signed, so)
			case jFloat:
				if n.inexact != "" && !(n.inexact == "float32" && so.W == 32) {
					i.abort(stInconclusive, "json: number whose text is not modelled exactly ("+n.inexact+")")
				}
				if so.W == 32 {
					if n.inexact != "float32" {
						i.abort(stInconclusive, "json: float64 text decoded into float32 (double rounding not modelled)")
					}
					*p = c.FToF(n.t, so)
				} else {
					*p = n.t
				}
			default:
				d.fail("json: cannot unmarshal " + jkindName(n) + " into Go value of type " + t.String())
			}
		case info&types.IsString != 0:
			if n.kind != jStr {
				d.fail("json: cannot unmarshal " + jkindName(n) + " into Go value of type " + t.String())
				return
			}
			*p = n.s
		default:
			d.fail("json: cannot unmarshal into Go value of type " + t.String())
		}
	case *types.Slice:
		if eb, ok := u.Elem().Underlying().(*types.Basic); ok && eb.Kind() == types.Uint8 && n.kind == jStr {
			b, err := i.base64Decode(n.s)
			if !isNilIface(err) {
				if d.firstErr == nil {
					d.firstErr = err
				}
				return
			}
			if b == nil {
				b = []value{}
			}
			*p = b
			return
		}
		if n.kind != jArr {
			d.fail("json: cannot unmarshal " + jkindName(n) + " into Go value of type " + t.String())
			return
		}
		old, _ := (*p).([]value)
		s := make([]value, len(n.elems))
		for k, e := range n.elems {
			if k < len(old) {
				s[k] = copyVal(old[k])
			} else {
				s[k] = i.zero(u.Elem())
			}
			d.decode(e, u.Elem(), &s[k], depth+1)
		}
		*p = s
	case *types.Array:
		if n.kind != jArr {
			d.fail("json: cannot unmarshal " + jkindName(n) + " into Go value of type " + t.String())
			return
		}
		a := (*p).(array)
		for k := range a {
			if k < len(n.elems) {
				d.decode(n.elems[k], u.Elem(), &a[k], depth+1)
			} else {
				a[k] = i.zero(u.Elem())
			}
		}
	case *types.Map:
		if n.kind != jObj {
			d.fail("json: cannot unmarshal " + jkindName(n) + " into Go value of type " + t.String())
			return
		}
		kb, ok := u.Key().Underlying().(*types.Basic)
		if !ok || kb.Info()&types.IsString == 0 {
			i.abort(stInconclusive, "json.Unmarshal: map key type "+u.Key().String()+" not modelled")
		}
		m, _ := (*p).(*mapv)
		if m == nil {
			m = newMap(u.Key())
			*p = m
		}
		for k, e := range n.elems {
			cell := i.zero(u.Elem())
			d.decode(e, u.Elem(), &cell, depth+1)
			i.mapSet(m, Str{s: n.keys[k]}, cell)
		}
	case *types.Struct:
		if n.kind != jObj {
			d.fail("json: cannot unmarshal " + jkindName(n) + " into Go value of type " + t.String())
			return
		}
		fields := jsonFields(u, nil, map[*types.Struct]bool{})
		for k, e := range n.elems {
			var f *jfield
			for x := range fields {
				if fields[x].name == n.keys[k] {
					f = &fields[x]
					break
				}
			}
			if f == nil {
				for x := range fields {
					if strings.EqualFold(fields[x].name, n.keys[k]) {
						f = &fields[x]
						break
					}
				}
			}
			if f == nil {
				continue
			}
			if strings.HasPrefix(f.name, "\x00") {
				i.abort(stInconclusive, "json struct tag option ',string' not modelled")
			}
			cur := (*p).(structure)
			var cell *value
			var ct types.Type = u
			for dd, fk := range f.index {
				cell = &cur[fk]
				ct = ct.Underlying().(*types.Struct).Field(fk).Type()
				if dd == len(f.index)-1 {
					break
				}
				switch x := (*cell).(type) {
				case structure:
					cur = x
				case *value:
					et := ct.Underlying().(*types.Pointer).Elem()
					if x == nil {
						nc := i.zero(et)
						x = &nc
						*cell = x
					}
					cur = (*x).(structure)
					ct = et
				}
			}
			d.decode(e, f.typ, cell, depth+1)
		}
	default:
		d.fail("json: cannot unmarshal " + jkindName(n) + " into Go value of type " + t.String())
	}
}

// intFits converts the integer term x (signedness xs) to width w (signedness
// ws) and says whether the value is representable.
func (i *Interp) intFits(x *smt.Term, xs bool, w int, ws bool) (*smt.Term, *smt.Term) {
	c := i.ctx
	x64 := x
	if x.Sort.W < 64 {
		if xs {
			x64 = c.SExt(x, 64)
		} else {
			x64 = c.ZExt(x, 64)
		}
	}
	k := func(v uint64) *smt.Term { return c.Const(smt.BV(64), v) }
	var fits *smt.Term
	switch {
	case xs && ws:
		min := int64(-1) << uint(w-1)
		max := int64(1)<<uint(w-1) - 1
		fits = c.And(c.SLE(k(uint64(min)), x64), c.SLE(x64, k(uint64(max))))
	case xs && !ws:
		fits = c.SLE(k(0), x64)
		if w < 64 {
			fits = c.And(fits, c.SLE(x64, k(uint64(1)<<uint(w)-1)))
		}
	case !xs && ws:
		fits = c.ULE(x64, k(uint64(1)<<uint(w-1)-1))
	default:
		fits = c.True
		if w < 64 {
			fits = c.ULE(x64, k(uint64(1)<<uint(w)-1))
		}
	}
	if w == 64 {
		return x64, fits
	}
	return c.Extract(x64, w-1, 0), fits
}

// ---- intrinsics ----

func registerJSON() {
	marshal := func(i *Interp, fr *frame, fn *ssa.Function, args []value) value {
		x := args[0].(iface)
		if x.t == nil {
			return tuple{i.constBytes("null"), iface{}}
		}
		n, err := i.jsonEncode(x.t, x.v, nil, 0)
		if err != nil {
			return tuple{[]value(nil), err}
		}
		if txt, ok := i.jsonRender(n, false); ok {
			return tuple{i.constBytes(txt), iface{}}
		}
		return tuple{i.docBytes(n), iface{}}
	}
	unmarshal := func(i *Interp, fr *frame, fn *ssa.Function, args []value) value {
		bs, _ := args[0].([]value)
		if p, ok := args[0].(poison); ok {
			i.abort(stInconclusive, "json.Unmarshal of unsupported bytes: "+p.why)
		}
		target := args[1].(iface)
		var root *jnode
		if d := docOfBytes(bs); d != nil {
			root = d.root
		} else {
			cb, ok := allConstBytes(bs)
			if !ok {
				i.abort(stInconclusive, "json.Unmarshal of symbolic text (not produced by the modelled Marshal)")
			}
			n, err := jsonParseText(i.ctx, cb)
			if err != nil {
				return i.jsonError(err.Error())
			}
			root = n
		}
		if target.t == nil {
			return i.jsonError("json: Unmarshal(nil)")
		}
		pt, ok := target.t.Underlying().(*types.Pointer)
		pp, _ := target.v.(*value)
		if !ok || pp == nil {
			return i.jsonError("json: Unmarshal(non-pointer or nil " + target.t.String() + ")")
		}
		d := &jsonDecoder{i: i}
		d.decode(root, pt.Elem(), pp, 0)
		if d.firstErr != nil {
			return d.firstErr
		}
		return iface{}
	}
	for _, pkg := range []string{"encoding/json", "github.com/goccy/go-json"} {
		intrinsics[pkg+".Marshal"] = marshal
		intrinsics[pkg+".Unmarshal"] = unmarshal
	}
	intrinsics["encoding/json.Valid"] = func(i *Interp, fr *frame, fn *ssa.Function, args []value) value {
		bs, _ := args[0].([]value)
		if docOfBytes(bs) != nil {
			return i.ctx.True
		}
		cb, ok := allConstBytes(bs)
		if !ok {
			i.abort(stInconclusive, "json.Valid of symbolic text")
		}
		return i.ctx.BoolC(stdjson.Valid(cb))
	}
}
