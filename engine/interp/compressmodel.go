package interp

// Model of the seata-go compressors (gzip, zip, bzip2, lz4, deflate, zstd
// wrappers around third-party / std libraries): Compress returns an opaque
// handle remembering the algorithm and the input; Decompress of a handle of
// the same algorithm returns the input, of anything else (plain bytes, another
// algorithm's output) an error. Trusted: each library's Decompress(Compress(x))
// == x and its rejection of input it did not produce. The compression loops
// themselves (table driven, input-length dependent) are outside symbolic reach.

import (
	"strings"

	"golang.org/x/tools/go/ssa"
)

type zipDoc struct {
	kind  string
	inner []value
	n     int
}

type zipByte struct {
	z *zipDoc
	k int
}

func zipOfBytes(b []value) *zipDoc {
	if len(b) == 0 {
		return nil
	}
	z0, ok := b[0].(zipByte)
	if !ok || z0.k != 0 || z0.z.n != len(b) {
		return nil
	}
	for k, e := range b {
		z, ok := e.(zipByte)
		if !ok || z.z != z0.z || z.k != k {
			return nil
		}
	}
	return z0.z
}

// compressIntrinsic matches (*pkg/compressor.X).Compress / Decompress for the
// modelled algorithms (NoneCompressor is interpreted: it is the identity).
func (i *Interp) compressIntrinsic(fn *ssa.Function, name string) intrinsic {
	prefix := i.P.ModPath + "/pkg/compressor."
	var kind, method string
	for _, k := range []string{"Gzip", "Zip", "Bzip2", "Lz4", "Zstd", "DeflateCompress"} {
		for _, recv := range []string{"(*" + prefix + k + ")", "(" + prefix + k + ")"} {
			if strings.HasPrefix(name, recv+".") {
				kind, method = k, strings.TrimPrefix(name, recv+".")
			}
		}
	}
	switch method {
	case "Compress":
		return func(i *Interp, fr *frame, fn *ssa.Function, args []value) value {
			in, _ := args[1].([]value)
			cp := make([]value, len(in))
			copy(cp, in)
			z := &zipDoc{kind: kind, inner: cp, n: len(in)/2 + 16}
			out := make([]value, z.n)
			for k := range out {
				out[k] = zipByte{z, k}
			}
			return tuple{out, iface{}}
		}
	case "Decompress":
		return func(i *Interp, fr *frame, fn *ssa.Function, args []value) value {
			in, _ := args[1].([]value)
			if z := zipOfBytes(in); z != nil && z.kind == kind {
				cp := make([]value, len(z.inner))
				copy(cp, z.inner)
				return tuple{cp, iface{}}
			}
			return tuple{[]value(nil), i.newError(Str{s: strings.ToLower(kind) + ": input is not " + kind + " data"}, nil)}
		}
	}
	return nil
}
