package interp

// Model of the four protobuf library calls the undo-log protobuf parser makes
// (proto.Marshal / proto.Unmarshal of the generated BranchUndoLog message,
// anypb.MarshalFrom / anypb.UnmarshalTo of a wrapperspb.BytesValue). The wire
// format itself (reflection over unsafe pointers, varint loops) is outside
// symbolic reach and trusted: Marshal returns an opaque handle remembering a
// deep copy of the message, Unmarshal of such a handle fills the target with a
// deep copy of it, of anything else fails; an Any carries the bytes of the
// BytesValue it was made from. Everything around these calls - the conversion
// between the undo-log structures and the generated message types, the JSON
// encoding of the column values - is interpreted.

import (
	"go/types"

	"golang.org/x/tools/go/ssa"
)

type pbDoc struct {
	msg value
	n   int
}

type pbByte struct {
	d *pbDoc
	k int
}

func pbOfBytes(b []value) *pbDoc {
	if len(b) == 0 {
		return nil
	}
	p0, ok := b[0].(pbByte)
	if !ok || p0.k != 0 || p0.d.n != len(b) {
		return nil
	}
	for k, e := range b {
		p, ok := e.(pbByte)
		if !ok || p.d != p0.d || p.k != k {
			return nil
		}
	}
	return p0.d
}

func deepCopyVal(v value, memo map[*value]*value) value {
	switch x := v.(type) {
	case *value:
		if x == nil {
			return x
		}
		if m, ok := memo[x]; ok {
			return m
		}
		n := new(value)
		memo[x] = n
		*n = deepCopyVal(*x, memo)
		return n
	case []value:
		if x == nil {
			return x
		}
		cp := make([]value, len(x))
		for k, e := range x {
			cp[k] = deepCopyVal(e, memo)
		}
		return cp
	case structure:
		cp := make(structure, len(x))
		for k, e := range x {
			cp[k] = deepCopyVal(e, memo)
		}
		return cp
	case array:
		cp := make(array, len(x))
		for k, e := range x {
			cp[k] = deepCopyVal(e, memo)
		}
		return cp
	case iface:
		return iface{t: x.t, v: deepCopyVal(x.v, memo)}
	}
	return v
}

// pbField: index of the named field of the struct a pointer type points to.
func pbField(t types.Type, name string) int {
	if p, ok := t.Underlying().(*types.Pointer); ok {
		t = p.Elem()
	}
	st, ok := t.Underlying().(*types.Struct)
	if !ok {
		return -1
	}
	for k := 0; k < st.NumFields(); k++ {
		if st.Field(k).Name() == name {
			return k
		}
	}
	return -1
}

func (i *Interp) protoIntrinsic(fn *ssa.Function, name string) intrinsic {
	switch name {
	case "google.golang.org/protobuf/proto.Marshal":
		return func(i *Interp, fr *frame, fn *ssa.Function, args []value) value {
			m, _ := args[0].(iface)
			p, _ := m.v.(*value)
			if m.t == nil || p == nil {
				return tuple{[]value(nil), iface{}}
			}
			d := &pbDoc{msg: deepCopyVal(*p, map[*value]*value{}), n: 16}
			out := make([]value, d.n)
			for k := range out {
				out[k] = pbByte{d, k}
			}
			return tuple{out, iface{}}
		}
	case "google.golang.org/protobuf/proto.Unmarshal":
		return func(i *Interp, fr *frame, fn *ssa.Function, args []value) value {
			b, _ := args[0].([]value)
			m, _ := args[1].(iface)
			p, _ := m.v.(*value)
			if len(b) == 0 && p != nil {
				return iface{} // an empty body is the empty message
			}
			d := pbOfBytes(b)
			if d == nil || p == nil {
				return i.newError(Str{s: "proto: cannot parse invalid wire-format data"}, nil)
			}
			*p = deepCopyVal(d.msg, map[*value]*value{})
			return iface{}
		}
	case "google.golang.org/protobuf/types/known/anypb.MarshalFrom":
		return func(i *Interp, fr *frame, fn *ssa.Function, args []value) value {
			dst, _ := args[0].(*value)
			src, _ := args[1].(iface)
			sp, _ := src.v.(*value)
			if dst == nil || sp == nil {
				return i.newError(Str{s: "proto: invalid nil message"}, nil)
			}
			sv := pbField(src.t, "Value")
			du, dv := pbField(fn.Signature.Params().At(0).Type(), "TypeUrl"), pbField(fn.Signature.Params().At(0).Type(), "Value")
			ss, ok1 := (*sp).(structure)
			ds, ok2 := (*dst).(structure)
			if sv < 0 || du < 0 || dv < 0 || !ok1 || !ok2 {
				i.abort(stInconclusive, "anypb.MarshalFrom of a message that is not a wrapper with a Value field")
			}
			b, _ := ss[sv].([]value)
			cp := make([]value, len(b))
			copy(cp, b)
			ds[du] = Str{s: "type.googleapis.com/google.protobuf.BytesValue"}
			ds[dv] = cp
			return iface{}
		}
	case "google.golang.org/protobuf/types/known/anypb.UnmarshalTo":
		return func(i *Interp, fr *frame, fn *ssa.Function, args []value) value {
			src, _ := args[0].(*value)
			dst, _ := args[1].(iface)
			dp, _ := dst.v.(*value)
			if src == nil || dp == nil {
				return i.newError(Str{s: "proto: invalid nil source message"}, nil)
			}
			sv := pbField(fn.Signature.Params().At(0).Type(), "Value")
			dv := pbField(dst.t, "Value")
			ss, ok1 := (*src).(structure)
			ds, ok2 := (*dp).(structure)
			if sv < 0 || dv < 0 || !ok1 || !ok2 {
				i.abort(stInconclusive, "anypb.UnmarshalTo into a message that is not a wrapper with a Value field")
			}
			b, _ := ss[sv].([]value)
			cp := make([]value, len(b))
			copy(cp, b)
			ds[dv] = cp
			return iface{}
		}
	}
	return nil
}
