package interp

import (
	"fmt"
	"go/token"
	"go/types"
	"unicode/utf8"

	"golang.org/x/tools/go/ssa"

	"verif/engine/smt"
)

func (i *Interp) binop(op token.Token, t types.Type, x, y value) value {
	c := i.ctx
	if p, ok := x.(poison); ok {
		return p
	}
	if p, ok := y.(poison); ok {
		return p
	}
	switch op {
	case token.EQL:
		return i.equals(t, x, y)
	case token.NEQ:
		return c.Not(i.equals(t, x, y))
	}
	switch x := x.(type) {
	case Str:
		y := y.(Str)
		switch op {
		case token.ADD:
			return i.strConcat(x, y)
		case token.LSS:
			return i.strLess(x, y)
		case token.GTR:
			return i.strLess(y, x)
		case token.LEQ:
			return c.Not(i.strLess(y, x))
		case token.GEQ:
			return c.Not(i.strLess(x, y))
		}
	case *smt.Term:
		yt := y.(*smt.Term)
		if x.Sort.K == smt.KBool {
			switch op {
			case token.AND, token.LAND:
				return c.And(x, yt)
			case token.OR, token.LOR:
				return c.Or(x, yt)
			}
		}
		if x.Sort.K == smt.KFP {
			switch op {
			case token.ADD:
				return c.FBin(smt.OpFAdd, x, yt)
			case token.SUB:
				return c.FBin(smt.OpFSub, x, yt)
			case token.MUL:
				return c.FBin(smt.OpFMul, x, yt)
			case token.QUO:
				return c.FBin(smt.OpFDiv, x, yt)
			case token.LSS:
				return c.FCmp(smt.OpFLT, x, yt)
			case token.LEQ:
				return c.FCmp(smt.OpFLE, x, yt)
			case token.GTR:
				return c.FCmp(smt.OpFLT, yt, x)
			case token.GEQ:
				return c.FCmp(smt.OpFLE, yt, x)
			}
			break
		}
		signed := isSigned(t)
		switch op {
		case token.ADD:
			return c.Add(x, yt)
		case token.SUB:
			return c.Sub(x, yt)
		case token.MUL:
			return c.Mul(x, yt)
		case token.QUO, token.REM:
			z := c.Eq(yt, c.Const(yt.Sort, 0))
			if i.decide(z, "div-by-zero") {
				i.targetPanicStr("runtime error: integer divide by zero")
			}
			if op == token.QUO {
				if signed {
					return c.SDiv(x, yt)
				}
				return c.UDiv(x, yt)
			}
			if signed {
				return c.SRem(x, yt)
			}
			return c.URem(x, yt)
		case token.AND:
			return c.BAnd(x, yt)
		case token.OR:
			return c.BOr(x, yt)
		case token.XOR:
			return c.BXor(x, yt)
		case token.AND_NOT:
			return c.BAnd(x, c.BNot(yt))
		case token.SHL, token.SHR:
			// y has its own (unsigned or signed, non-negative) type
			sh := i.shiftCount(yt, x.Sort.W)
			if op == token.SHL {
				return c.Shl(x, sh)
			}
			if signed {
				return c.AShr(x, sh)
			}
			return c.LShr(x, sh)
		case token.LSS:
			if signed {
				return c.SLT(x, yt)
			}
			return c.ULT(x, yt)
		case token.LEQ:
			if signed {
				return c.SLE(x, yt)
			}
			return c.ULE(x, yt)
		case token.GTR:
			if signed {
				return c.SLT(yt, x)
			}
			return c.ULT(yt, x)
		case token.GEQ:
			if signed {
				return c.SLE(yt, x)
			}
			return c.ULE(yt, x)
		}
	}
	panic(fmt.Sprintf("binop: %s on %T,%T (type %v)", op, x, y, t))
}

// shiftCount adapts a shift count to width w with Go semantics (count >= w
// shifts everything out).
func (i *Interp) shiftCount(y *smt.Term, w int) *smt.Term {
	c := i.ctx
	if y.Sort.W == w {
		return y
	}
	if y.Sort.W < w {
		return c.ZExt(y, w)
	}
	// wider: saturate
	big := c.ULE(c.Const(y.Sort, uint64(w)), y)
	return c.Ite(big, c.Const(smt.BV(w), uint64(w)), c.Extract(y, w-1, 0))
}

func (i *Interp) unop(instr *ssa.UnOp, x value) value {
	c := i.ctx
	if p, ok := x.(poison); ok {
		if instr.Op == token.MUL {
			i.abort(stInconclusive, "dereference of unsupported value: "+p.why)
		}
		return p
	}
	switch instr.Op {
	case token.ARROW:
		return i.chanRecv(x.(*chanv), instr.CommaOk, instr.Type())
	case token.MUL:
		p := x.(*value)
		if p == nil {
			i.targetPanicStr("runtime error: invalid memory address or nil pointer dereference")
		}
		return copyVal(*p)
	case token.SUB:
		t := x.(*smt.Term)
		if t.Sort.K == smt.KFP {
			return c.FNeg(t)
		}
		return c.Neg(t)
	case token.NOT:
		return c.Not(x.(*smt.Term))
	case token.XOR:
		return c.BNot(x.(*smt.Term))
	}
	panic(fmt.Sprintf("unop %s on %T", instr.Op, x))
}

// conv implements ssa.Convert.
func (i *Interp) conv(tdst, tsrc types.Type, x value) value {
	c := i.ctx
	if p, ok := x.(poison); ok {
		return p
	}
	ud := tdst.Underlying()
	us := tsrc.Underlying()
	if tp, ok := ud.(*types.TypeParam); ok {
		_ = tp
		return poison{"conversion to type parameter"}
	}
	// unsafe.Pointer conversions
	if b, ok := ud.(*types.Basic); ok && b.Kind() == types.UnsafePointer {
		if up, ok := x.(upointer); ok {
			return up
		}
		if _, ok := x.(*smt.Term); ok {
			return poison{"uintptr -> unsafe.Pointer"}
		}
		return upointer{x}
	}
	if b, ok := us.(*types.Basic); ok && b.Kind() == types.UnsafePointer {
		up := x.(upointer)
		if _, ok := ud.(*types.Pointer); ok {
			if up.v == nil {
				return (*value)(nil)
			}
			if p, ok := up.v.(*value); ok {
				return p
			}
			return poison{"unsafe.Pointer -> pointer of different shape"}
		}
		return poison{"unsafe.Pointer -> " + tdst.String()}
	}
	switch ud := ud.(type) {
	case *types.Pointer, *types.Signature, *types.Map, *types.Chan, *types.Struct, *types.Array, *types.Interface:
		return x
	case *types.Slice:
		// string -> []byte / []rune
		if s, ok := x.(Str); ok {
			if s.opaque && s.doc != nil {
				r := make([]value, s.doc.n)
				for k := range r {
					r[k] = docByte{s.doc, k}
				}
				return r
			}
			if s.opaque {
				return poison{"opaque string -> slice"}
			}
			eb := ud.Elem().Underlying().(*types.Basic)
			if eb.Kind() == types.Uint8 {
				ts := s.terms(c)
				r := make([]value, len(ts))
				for k, t := range ts {
					r[k] = t
				}
				return r
			}
			cs, ok := s.Concrete()
			if !ok {
				return i.symRunes(s)
			}
			var r []value
			for _, ru := range cs {
				r = append(r, c.Const(smt.BV(32), uint64(uint32(ru))))
			}
			if r == nil {
				r = []value{}
			}
			return r
		}
		return x
	case *types.Basic:
		if ud.Info()&types.IsString != 0 {
			switch x := x.(type) {
			case Str:
				return x
			case []value: // []byte or []rune -> string
				var elemKind types.BasicKind = types.Uint8
				if sl, ok := us.(*types.Slice); ok {
					elemKind = sl.Elem().Underlying().(*types.Basic).Kind()
				}
				if elemKind == types.Uint8 {
					if d := docOfBytes(x); d != nil {
						return Str{opaque: true, doc: d}
					}
					ts := make([]*smt.Term, len(x))
					for k, e := range x {
						t, ok := e.(*smt.Term)
						if !ok {
							return poison{"[]byte with unsupported element -> string"}
						}
						ts[k] = t
					}
					return mkStr(ts)
				}
				var buf []byte
				allConst := true
				for _, e := range x {
					if t := e.(*smt.Term); !t.IsConst() {
						allConst = false
						break
					}
				}
				if !allConst {
					f := i.lookupFunc("unicode/utf8", "AppendRune")
					if f == nil {
						return poison{"symbolic []rune -> string"}
					}
					var acc value = []value{}
					for _, e := range x {
						acc = i.callSSA(nil, f, []value{acc, e}, nil)
					}
					return i.conv(types.Typ[types.String], types.NewSlice(types.Typ[types.Uint8]), acc)
				}
				for _, e := range x {
					t := e.(*smt.Term)
					buf = utf8.AppendRune(buf, rune(int32(t.C)))
				}
				return Str{s: string(buf)}
			case *smt.Term: // integer -> string (rune)
				if !x.IsConst() {
					return poison{"symbolic rune -> string"}
				}
				v := int64(x.C)
				if isSigned(tsrc) {
					v = int64(x.C<<(64-uint(x.Sort.W))) >> (64 - uint(x.Sort.W))
				}
				r := rune(v)
				if int64(r) != v {
					r = utf8.RuneError
				}
				return Str{s: string(r)}
			}
		}
		t, ok := x.(*smt.Term)
		if !ok {
			break
		}
		ds, ok := sortOf(ud)
		if !ok {
			break
		}
		ss := t.Sort
		switch {
		case ss.K == smt.KBV && ds.K == smt.KBV:
			if ds.W == ss.W {
				return t
			}
			if ds.W < ss.W {
				return c.Extract(t, ds.W-1, 0)
			}
			if isSigned(tsrc) {
				return c.SExt(t, ds.W)
			}
			return c.ZExt(t, ds.W)
		case ss.K == smt.KBV && ds.K == smt.KFP:
			return c.FFromInt(t, isSigned(tsrc), ds)
		case ss.K == smt.KFP && ds.K == smt.KBV:
			if ds.W < 64 {
				// go converts via int64 then truncates (amd64 behaviour for in-range values)
				w := c.FToInt(t, true, 64)
				return c.Extract(w, ds.W-1, 0)
			}
			return c.FToInt(t, isSigned(tdst), ds.W)
		case ss.K == smt.KFP && ds.K == smt.KFP:
			return c.FToF(t, ds)
		case ss.K == smt.KBool && ds.K == smt.KBool:
			return t
		}
	}
	panic(fmt.Sprintf("conv: %v -> %v (%T)", tsrc, tdst, x))
}

// symRunes decodes a (partly) symbolic string into runes by interpreting
// unicode/utf8.DecodeRuneInString on it (forks on the byte classes).
func (i *Interp) symRunes(s Str) value {
	r := make([]value, 0, s.Len())
	pos := 0
	for pos < s.Len() {
		ru, size := i.decodeRuneAt(s, pos)
		r = append(r, ru)
		pos += size
	}
	return r
}

// decodeRuneAt returns the rune starting at byte pos and its width.
func (i *Interp) decodeRuneAt(s Str, pos int) (*smt.Term, int) {
	c := i.ctx
	b := s.at(c, pos)
	if b.IsConst() && b.C < 0x80 {
		return c.Const(smt.BV(32), b.C), 1
	}
	end := pos + 4
	if end > s.Len() {
		end = s.Len()
	}
	sub := i.strSlice(s, pos, end)
	if cs, ok := sub.Concrete(); ok {
		ru, w := decodeRune(cs)
		return c.Const(smt.BV(32), uint64(uint32(ru))), w
	}
	f := i.lookupFunc("unicode/utf8", "DecodeRuneInString")
	if f == nil {
		i.abort(stInconclusive, "unicode/utf8 not loaded for symbolic rune decoding")
	}
	res := i.callSSA(nil, f, []value{sub}, nil).(tuple)
	return res[0].(*smt.Term), int(i.asInt(res[1], true, "rune-width"))
}

func (i *Interp) strConcat(x, y Str) Str {
	if x.opaque || y.opaque {
		return Str{opaque: true}
	}
	if x.sym == nil && y.sym == nil {
		return Str{s: x.s + y.s}
	}
	if x.Len() == 0 {
		return y
	}
	if y.Len() == 0 {
		return x
	}
	c := i.ctx
	ts := make([]*smt.Term, 0, x.Len()+y.Len())
	ts = append(ts, x.terms(c)...)
	ts = append(ts, y.terms(c)...)
	return Str{sym: ts}
}

func (i *Interp) strSlice(x Str, lo, hi int) Str {
	if x.sym == nil {
		return Str{s: x.s[lo:hi]}
	}
	return mkStr(x.sym[lo:hi])
}

// asInt extracts a concrete int from a term, concretizing (forking) when symbolic.
func (i *Interp) asInt(v value, signed bool, site string) int64 {
	t, ok := v.(*smt.Term)
	if !ok {
		if p, ok := v.(poison); ok {
			i.abort(stInconclusive, "integer from unsupported value: "+p.why)
		}
		panic(fmt.Sprintf("asInt of %T", v))
	}
	if !t.IsConst() {
		t = i.concretize(t, site)
	}
	if signed {
		sh := uint(64 - t.Sort.W)
		return int64(t.C<<sh) >> sh
	}
	return int64(t.C)
}

func constInt(v value) (int64, bool) {
	t, ok := v.(*smt.Term)
	if !ok || !t.IsConst() {
		return 0, false
	}
	return int64(t.C), true
}
