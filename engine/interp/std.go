package interp

import (
	"fmt"
	"go/types"
	"strings"

	"golang.org/x/tools/go/ssa"

	"verif/engine/smt"
)

// ---------------- sync ----------------

type mutexState struct {
	locked  bool
	readers int
}

func (i *Interp) mutexOf(p value) *mutexState {
	if s, ok := i.side[p]; ok {
		return s.(*mutexState)
	}
	s := &mutexState{}
	i.side[p] = s
	return s
}

type onceState struct{ done, running bool }
type wgState struct{ n int64 }

func registerSync() {
	lock := func(i *Interp, fr *frame, fn *ssa.Function, args []value) value {
		m := i.mutexOf(args[0])
		i.blockUntil(func() bool { return !m.locked && m.readers == 0 }, "sync.Mutex.Lock")
		m.locked = true
		return nil
	}
	unlock := func(i *Interp, fr *frame, fn *ssa.Function, args []value) value {
		m := i.mutexOf(args[0])
		if !m.locked {
			panic(targetPanic{i.newError(Str{s: "sync: unlock of unlocked mutex"}, nil)})
		}
		m.locked = false
		i.stateVersion++
		return nil
	}
	intrinsics["(*sync.Mutex).Lock"] = lock
	intrinsics["(*sync.Mutex).Unlock"] = unlock
	intrinsics["(*sync.RWMutex).Lock"] = lock
	intrinsics["(*sync.RWMutex).Unlock"] = unlock
	intrinsics["(*sync.Mutex).TryLock"] = func(i *Interp, fr *frame, fn *ssa.Function, args []value) value {
		m := i.mutexOf(args[0])
		if m.locked {
			return i.ctx.False
		}
		m.locked = true
		return i.ctx.True
	}
	intrinsics["(*sync.RWMutex).RLock"] = func(i *Interp, fr *frame, fn *ssa.Function, args []value) value {
		m := i.mutexOf(args[0])
		i.blockUntil(func() bool { return !m.locked }, "sync.RWMutex.RLock")
		m.readers++
		return nil
	}
	intrinsics["(*sync.RWMutex).RUnlock"] = func(i *Interp, fr *frame, fn *ssa.Function, args []value) value {
		m := i.mutexOf(args[0])
		m.readers--
		i.stateVersion++
		return nil
	}
	intrinsics["(*sync.Once).Do"] = func(i *Interp, fr *frame, fn *ssa.Function, args []value) value {
		var st *onceState
		if s, ok := i.side[args[0]]; ok {
			st = s.(*onceState)
		} else {
			st = &onceState{}
			i.side[args[0]] = st
		}
		if st.done {
			return nil
		}
		if st.running {
			i.blockUntil(func() bool { return st.done }, "sync.Once.Do (re-entrant or concurrent)")
			return nil
		}
		st.running = true
		defer func() { st.done = true; st.running = false; i.stateVersion++ }()
		i.call(fr, args[1], nil)
		return nil
	}
	wg := func(i *Interp, p value) *wgState {
		if s, ok := i.side[p]; ok {
			return s.(*wgState)
		}
		s := &wgState{}
		i.side[p] = s
		return s
	}
	intrinsics["(*sync.WaitGroup).Add"] = func(i *Interp, fr *frame, fn *ssa.Function, args []value) value {
		s := wg(i, args[0])
		s.n += i.asInt(args[1], true, "WaitGroup.Add")
		if s.n < 0 {
			panic(targetPanic{i.newError(Str{s: "sync: negative WaitGroup counter"}, nil)})
		}
		i.stateVersion++
		return nil
	}
	intrinsics["(*sync.WaitGroup).Done"] = func(i *Interp, fr *frame, fn *ssa.Function, args []value) value {
		s := wg(i, args[0])
		s.n--
		if s.n < 0 {
			panic(targetPanic{i.newError(Str{s: "sync: negative WaitGroup counter"}, nil)})
		}
		i.stateVersion++
		return nil
	}
	intrinsics["(*sync.WaitGroup).Wait"] = func(i *Interp, fr *frame, fn *ssa.Function, args []value) value {
		s := wg(i, args[0])
		i.blockUntil(func() bool { return s.n == 0 }, "sync.WaitGroup.Wait")
		return nil
	}
	// sync.Map
	smap := func(i *Interp, p value) *mapv {
		if s, ok := i.side[p]; ok {
			return s.(*mapv)
		}
		m := newMap(types.NewInterfaceType(nil, nil))
		i.side[p] = m
		return m
	}
	intrinsics["(*sync.Map).Load"] = func(i *Interp, fr *frame, fn *ssa.Function, args []value) value {
		v, ok := i.mapGet(smap(i, args[0]), args[1])
		if !ok {
			return tuple{iface{}, i.ctx.False}
		}
		return tuple{v, i.ctx.True}
	}
	intrinsics["(*sync.Map).Store"] = func(i *Interp, fr *frame, fn *ssa.Function, args []value) value {
		i.mapSet(smap(i, args[0]), args[1], args[2])
		i.stateVersion++
		return nil
	}
	intrinsics["(*sync.Map).LoadOrStore"] = func(i *Interp, fr *frame, fn *ssa.Function, args []value) value {
		m := smap(i, args[0])
		if v, ok := i.mapGet(m, args[1]); ok {
			return tuple{v, i.ctx.True}
		}
		i.mapSet(m, args[1], args[2])
		i.stateVersion++
		return tuple{args[2], i.ctx.False}
	}
	intrinsics["(*sync.Map).LoadAndDelete"] = func(i *Interp, fr *frame, fn *ssa.Function, args []value) value {
		m := smap(i, args[0])
		if v, ok := i.mapGet(m, args[1]); ok {
			i.mapDelete(m, args[1])
			i.stateVersion++
			return tuple{v, i.ctx.True}
		}
		return tuple{iface{}, i.ctx.False}
	}
	intrinsics["(*sync.Map).Delete"] = func(i *Interp, fr *frame, fn *ssa.Function, args []value) value {
		i.mapDelete(smap(i, args[0]), args[1])
		i.stateVersion++
		return nil
	}
	intrinsics["(*sync.Map).Swap"] = func(i *Interp, fr *frame, fn *ssa.Function, args []value) value {
		m := smap(i, args[0])
		old, ok := i.mapGet(m, args[1])
		i.mapSet(m, args[1], args[2])
		i.stateVersion++
		if !ok {
			return tuple{iface{}, i.ctx.False}
		}
		return tuple{old, i.ctx.True}
	}
	intrinsics["(*sync.Map).Range"] = func(i *Interp, fr *frame, fn *ssa.Function, args []value) value {
		m := smap(i, args[0])
		for _, e := range m.live() {
			if e.deleted {
				continue
			}
			r := i.call(fr, args[1], []value{e.k, e.v})
			if !i.decide(i.boolArg(r, "sync.Map.Range callback"), "syncmap-range") {
				break
			}
		}
		return nil
	}
	intrinsics["(*sync.Map).Clear"] = func(i *Interp, fr *frame, fn *ssa.Function, args []value) value {
		smap(i, args[0]).clear()
		return nil
	}
	intrinsics["(*sync.Pool).Get"] = func(i *Interp, fr *frame, fn *ssa.Function, args []value) value {
		p := args[0].(*value)
		st := (*p).(structure)
		// field "New" is the last field
		newF := st[len(st)-1]
		if isNilValue(newF) {
			return iface{}
		}
		return i.call(fr, newF, nil)
	}
	intrinsics["(*sync.Pool).Put"] = intrNoop
	intrinsics["(*sync.Cond).Broadcast"] = func(i *Interp, fr *frame, fn *ssa.Function, args []value) value {
		i.stateVersion++
		return nil
	}
	intrinsics["(*sync.Cond).Signal"] = intrinsics["(*sync.Cond).Broadcast"]

	// sync/atomic
	for _, ty := range []string{"Int32", "Int64", "Uint32", "Uint64", "Uintptr", "Pointer"} {
		ty := ty
		intrinsics["sync/atomic.Load"+ty] = func(i *Interp, fr *frame, fn *ssa.Function, args []value) value {
			return copyVal(*i.ptrArg(args[0]))
		}
		intrinsics["sync/atomic.Store"+ty] = func(i *Interp, fr *frame, fn *ssa.Function, args []value) value {
			*i.ptrArg(args[0]) = args[1]
			i.stateVersion++
			return nil
		}
		intrinsics["sync/atomic.Swap"+ty] = func(i *Interp, fr *frame, fn *ssa.Function, args []value) value {
			p := i.ptrArg(args[0])
			old := *p
			*p = args[1]
			i.stateVersion++
			return old
		}
		intrinsics["sync/atomic.CompareAndSwap"+ty] = func(i *Interp, fr *frame, fn *ssa.Function, args []value) value {
			p := i.ptrArg(args[0])
			eq := i.equals(fn.Signature.Params().At(1).Type(), *p, args[1])
			if i.decide(eq, "atomic-cas") {
				*p = args[2]
				i.stateVersion++
				return i.ctx.True
			}
			return i.ctx.False
		}
		if ty != "Pointer" {
			intrinsics["sync/atomic.Add"+ty] = func(i *Interp, fr *frame, fn *ssa.Function, args []value) value {
				p := i.ptrArg(args[0])
				n := i.ctx.Add((*p).(*smt.Term), args[1].(*smt.Term))
				*p = n
				i.stateVersion++
				return n
			}
			intrinsics["sync/atomic.And"+ty] = func(i *Interp, fr *frame, fn *ssa.Function, args []value) value {
				p := i.ptrArg(args[0])
				old := (*p).(*smt.Term)
				*p = i.ctx.BAnd(old, args[1].(*smt.Term))
				return old
			}
			intrinsics["sync/atomic.Or"+ty] = func(i *Interp, fr *frame, fn *ssa.Function, args []value) value {
				p := i.ptrArg(args[0])
				old := (*p).(*smt.Term)
				*p = i.ctx.BOr(old, args[1].(*smt.Term))
				return old
			}
		}
	}
	// atomic.Value
	intrinsics["(*sync/atomic.Value).Load"] = func(i *Interp, fr *frame, fn *ssa.Function, args []value) value {
		if v, ok := i.side[args[0]]; ok {
			return v.(iface)
		}
		return iface{}
	}
	intrinsics["(*sync/atomic.Value).Store"] = func(i *Interp, fr *frame, fn *ssa.Function, args []value) value {
		i.side[args[0]] = args[1].(iface)
		i.stateVersion++
		return nil
	}
	intrinsics["(*sync/atomic.Value).Swap"] = func(i *Interp, fr *frame, fn *ssa.Function, args []value) value {
		old, ok := i.side[args[0]]
		i.side[args[0]] = args[1].(iface)
		if !ok {
			return iface{}
		}
		return old.(iface)
	}
}

func (i *Interp) ptrArg(v value) *value {
	p, ok := v.(*value)
	if !ok {
		if up, isU := v.(upointer); isU {
			if pp, ok := up.v.(*value); ok {
				return pp
			}
		}
		if po, isP := v.(poison); isP {
			i.abort(stInconclusive, "atomic on unsupported pointer: "+po.why)
		}
		panic(fmt.Sprintf("ptrArg: %T", v))
	}
	if p == nil {
		i.targetPanicStr("runtime error: invalid memory address or nil pointer dereference")
	}
	return p
}

// ---------------- runtime & friends ----------------

func registerRuntime() {
	intrinsics["runtime.Stack"] = func(i *Interp, fr *frame, fn *ssa.Function, args []value) value { return i.mkInt(0) }
	intrinsics["runtime.Callers"] = func(i *Interp, fr *frame, fn *ssa.Function, args []value) value { return i.mkInt(0) }
	intrinsics["runtime.Caller"] = func(i *Interp, fr *frame, fn *ssa.Function, args []value) value {
		return tuple{i.ctx.Const(i64s, 0), Str{s: "?"}, i.mkInt(0), i.ctx.False}
	}
	intrinsics["runtime.Gosched"] = func(i *Interp, fr *frame, fn *ssa.Function, args []value) value {
		i.yield(false, "Gosched")
		return nil
	}
	for _, n := range []string{"runtime.GC", "runtime.KeepAlive", "runtime.SetFinalizer", "runtime.LockOSThread", "runtime.UnlockOSThread"} {
		intrinsics[n] = intrNoop
	}
	intrinsics["runtime.NumGoroutine"] = func(i *Interp, fr *frame, fn *ssa.Function, args []value) value { return i.mkInt(int64(len(i.gors))) }
	intrinsics["runtime.GOMAXPROCS"] = func(i *Interp, fr *frame, fn *ssa.Function, args []value) value { return i.mkInt(16) }
	intrinsics["runtime.NumCPU"] = func(i *Interp, fr *frame, fn *ssa.Function, args []value) value { return i.mkInt(16) }
	intrinsics["runtime.Goexit"] = func(i *Interp, fr *frame, fn *ssa.Function, args []value) value {
		i.abort(stInconclusive, "runtime.Goexit")
		return nil
	}
	intrinsics["internal/abi.NoEscape"] = func(i *Interp, fr *frame, fn *ssa.Function, args []value) value { return args[0] }
	intrinsics["(*strings.Builder).copyCheck"] = intrNoop
	intrinsics["(*internal/godebug.Setting).Value"] = func(i *Interp, fr *frame, fn *ssa.Function, args []value) value { return Str{} }
	intrinsics["(*internal/godebug.Setting).IncNonDefault"] = intrNoop
	intrinsics["internal/godebug.New"] = func(i *Interp, fr *frame, fn *ssa.Function, args []value) value {
		return (*value)(nil)
	}
	intrinsics["os.Getenv"] = func(i *Interp, fr *frame, fn *ssa.Function, args []value) value { return Str{} }
	intrinsics["os.LookupEnv"] = func(i *Interp, fr *frame, fn *ssa.Function, args []value) value { return tuple{Str{}, i.ctx.False} }
	intrinsics["os.Getpid"] = func(i *Interp, fr *frame, fn *ssa.Function, args []value) value { return i.mkInt(4242) }
	intrinsics["math.Float64bits"] = func(i *Interp, fr *frame, fn *ssa.Function, args []value) value {
		t := args[0].(*smt.Term)
		if t.IsConst() {
			return i.ctx.Const(i64s, t.C)
		}
		if t.Op == smt.OpFFromBits {
			return t.Args[0]
		}
		// fresh bits variable constrained to denote t
		b := i.ctx.Var(fmt.Sprintf("$fbits%d", t.ID), i64s)
		i.ex.vars = append(i.ex.vars, b)
		i.ex.pc = append(i.ex.pc, i.ctx.Or(i.ctx.FCmp(smt.OpFEq, i.ctx.FFromBits(b), t), i.ctx.And(i.ctx.FIsNaN(t), i.ctx.FIsNaN(i.ctx.FFromBits(b)))))
		i.ex.model = nil
		return b
	}
	intrinsics["math.Float64frombits"] = func(i *Interp, fr *frame, fn *ssa.Function, args []value) value {
		return i.ctx.FFromBits(args[0].(*smt.Term))
	}
	intrinsics["math.Float32frombits"] = intrinsics["math.Float64frombits"]
	intrinsics["math.Float32bits"] = func(i *Interp, fr *frame, fn *ssa.Function, args []value) value {
		t := args[0].(*smt.Term)
		if t.IsConst() {
			return i.ctx.Const(smt.BV(32), t.C)
		}
		if t.Op == smt.OpFFromBits {
			return t.Args[0]
		}
		return poison{"Float32bits of computed symbolic float"}
	}
}

// ---------------- internal/bytealg (symbolic-aware) ----------------

func (i *Interp) byteTerms(v value) []*smt.Term {
	switch v := v.(type) {
	case Str:
		if v.opaque {
			i.abort(stInconclusive, "byte scan of opaque string")
		}
		return v.terms(i.ctx)
	case []value:
		r := make([]*smt.Term, len(v))
		for k, e := range v {
			r[k] = e.(*smt.Term)
		}
		return r
	}
	panic(fmt.Sprintf("byteTerms: %T", v))
}

func registerBytealg() {
	indexByte := func(i *Interp, fr *frame, fn *ssa.Function, args []value) value {
		bs := i.byteTerms(args[0])
		c := args[1].(*smt.Term)
		for k, b := range bs {
			if i.decide(i.ctx.Eq(b, c), "bytealg.IndexByte") {
				return i.mkInt(int64(k))
			}
		}
		return i.mkInt(-1)
	}
	intrinsics["internal/bytealg.IndexByte"] = indexByte
	intrinsics["internal/bytealg.IndexByteString"] = indexByte
	lastIndexByte := func(i *Interp, fr *frame, fn *ssa.Function, args []value) value {
		bs := i.byteTerms(args[0])
		c := args[1].(*smt.Term)
		for k := len(bs) - 1; k >= 0; k-- {
			if i.decide(i.ctx.Eq(bs[k], c), "bytealg.LastIndexByte") {
				return i.mkInt(int64(k))
			}
		}
		return i.mkInt(-1)
	}
	intrinsics["internal/bytealg.LastIndexByte"] = lastIndexByte
	intrinsics["internal/bytealg.LastIndexByteString"] = lastIndexByte
	count := func(i *Interp, fr *frame, fn *ssa.Function, args []value) value {
		bs := i.byteTerms(args[0])
		c := args[1].(*smt.Term)
		n := i.ctx.Const(i64s, 0)
		for _, b := range bs {
			n = i.ctx.Add(n, i.ctx.Ite(i.ctx.Eq(b, c), i.ctx.Const(i64s, 1), i.ctx.Const(i64s, 0)))
		}
		return n
	}
	intrinsics["internal/bytealg.Count"] = count
	intrinsics["internal/bytealg.CountString"] = count
	intrinsics["internal/bytealg.Equal"] = func(i *Interp, fr *frame, fn *ssa.Function, args []value) value {
		a, b := i.byteTerms(args[0]), i.byteTerms(args[1])
		return i.strEq(mkStr(a), mkStr(b))
	}
	intrinsics["internal/bytealg.Compare"] = func(i *Interp, fr *frame, fn *ssa.Function, args []value) value {
		a, b := mkStr(i.byteTerms(args[0])), mkStr(i.byteTerms(args[1]))
		lt := i.strLess(a, b)
		eq := i.strEq(a, b)
		return i.ctx.Ite(lt, i.ctx.Const(i64s, ^uint64(0)), i.ctx.Ite(eq, i.ctx.Const(i64s, 0), i.ctx.Const(i64s, 1)))
	}
	index := func(i *Interp, fr *frame, fn *ssa.Function, args []value) value {
		a, b := i.byteTerms(args[0]), i.byteTerms(args[1])
		for k := 0; k+len(b) <= len(a); k++ {
			if i.decide(i.strEq(mkStr(a[k:k+len(b)]), mkStr(b)), "bytealg.Index") {
				return i.mkInt(int64(k))
			}
		}
		return i.mkInt(-1)
	}
	intrinsics["internal/bytealg.Index"] = index
	intrinsics["internal/bytealg.IndexString"] = index
	intrinsics["internal/bytealg.MakeNoZero"] = func(i *Interp, fr *frame, fn *ssa.Function, args []value) value {
		n := int(i.asInt(args[0], true, "MakeNoZero"))
		r := make([]value, n)
		for k := range r {
			r[k] = i.ctx.Const(bv8, 0)
		}
		return r
	}
	intrinsics["internal/bytealg.Cutover"] = func(i *Interp, fr *frame, fn *ssa.Function, args []value) value { return i.mkInt(1 << 30) }
	intrinsics["internal/stringslite.Index"] = func(i *Interp, fr *frame, fn *ssa.Function, args []value) value {
		return index(i, fr, fn, args)
	}
	intrinsics["strings.Index"] = index
	intrinsics["strings.Contains"] = func(i *Interp, fr *frame, fn *ssa.Function, args []value) value {
		r := index(i, fr, fn, args).(*smt.Term)
		return i.ctx.BoolC(int64(r.C) >= 0)
	}
	intrinsics["bytes.Index"] = index
	intrinsics["strings.IndexByte"] = indexByte
	intrinsics["bytes.IndexByte"] = indexByte
	intrinsics["bytes.Equal"] = intrinsics["internal/bytealg.Equal"]
}

// ---------------- time ----------------

const unixToInternal int64 = (1969*365 + 1969/4 - 1969/100 + 1969/400) * 86400

func (i *Interp) timeValue(ns int64) value {
	sec := ns/1e9 + unixToInternal
	nsec := ns % 1e9
	return structure{i.ctx.Const(i64s, uint64(nsec)), i.ctx.Const(i64s, uint64(sec)), (*value)(nil)}
}

func (i *Interp) newTimerChan(d int64, period int64) (*chanv, *timer) {
	ch := &chanv{cap: 1, elemT: i.lookupType("time", "Time")}
	t := &timer{at: i.clock + d, ch: ch, period: period}
	i.timers = append(i.timers, t)
	return ch, t
}

// asDur extracts a duration; a symbolic duration (e.g. random jitter) is fixed
// to one representative value: timer lengths do not influence which events
// the virtual clock can order.
func (i *Interp) asDur(v value, site string) int64 {
	t, ok := v.(*smt.Term)
	if !ok {
		panic("asDur: not a term")
	}
	if !t.IsConst() {
		t = i.concretizeOne(t, site)
	}
	return int64(t.C)
}

func registerTime() {
	intrinsics["time.Now"] = func(i *Interp, fr *frame, fn *ssa.Function, args []value) value {
		i.clock += 1000 // 1µs per observation
		return i.timeValue(i.clock)
	}
	intrinsics["time.Sleep"] = func(i *Interp, fr *frame, fn *ssa.Function, args []value) value {
		d := i.asDur(args[0], "time.Sleep")
		if d <= 0 {
			return nil
		}
		me := i.cur
		me.sleepTo = i.clock + d
		i.blockUntil(func() bool { return i.clock >= me.sleepTo }, "time.Sleep")
		me.sleepTo = 0
		return nil
	}
	intrinsics["time.After"] = func(i *Interp, fr *frame, fn *ssa.Function, args []value) value {
		ch, _ := i.newTimerChan(i.asDur(args[0], "time.After"), 0)
		return ch
	}
	intrinsics["time.Tick"] = func(i *Interp, fr *frame, fn *ssa.Function, args []value) value {
		d := i.asDur(args[0], "time.Tick")
		ch, _ := i.newTimerChan(d, d)
		return ch
	}
	mkTimerObj := func(i *Interp, typ string, ch *chanv, t *timer) value {
		tt := i.lookupType("time", typ)
		st := i.zero(tt).(structure)
		st[0] = ch // field C
		var cell value = st
		p := &cell
		i.side[p] = t
		return p
	}
	intrinsics["time.NewTimer"] = func(i *Interp, fr *frame, fn *ssa.Function, args []value) value {
		ch, t := i.newTimerChan(i.asDur(args[0], "time.NewTimer"), 0)
		return mkTimerObj(i, "Timer", ch, t)
	}
	intrinsics["time.NewTicker"] = func(i *Interp, fr *frame, fn *ssa.Function, args []value) value {
		d := i.asDur(args[0], "time.NewTicker")
		ch, t := i.newTimerChan(d, d)
		return mkTimerObj(i, "Ticker", ch, t)
	}
	intrinsics["time.AfterFunc"] = func(i *Interp, fr *frame, fn *ssa.Function, args []value) value {
		d := i.asDur(args[0], "time.AfterFunc")
		t := &timer{at: i.clock + d, fn: args[1]}
		i.timers = append(i.timers, t)
		tt := i.lookupType("time", "Timer")
		var cell value = i.zero(tt)
		p := &cell
		i.side[p] = t
		return p
	}
	stop := func(i *Interp, fr *frame, fn *ssa.Function, args []value) value {
		t, ok := i.side[args[0]].(*timer)
		if !ok {
			return i.zeroResults(fn)
		}
		was := !t.fired && !t.stopped
		t.stopped = true
		if fn.Signature.Results().Len() == 0 {
			return nil
		}
		return i.ctx.BoolC(was)
	}
	intrinsics["(*time.Timer).Stop"] = stop
	intrinsics["(*time.Ticker).Stop"] = stop
	intrinsics["(*time.Timer).Reset"] = func(i *Interp, fr *frame, fn *ssa.Function, args []value) value {
		t, ok := i.side[args[0]].(*timer)
		if !ok {
			return i.ctx.False
		}
		was := !t.fired && !t.stopped
		t.at = i.clock + i.asDur(args[1], "Timer.Reset")
		t.fired, t.stopped = false, false
		return i.ctx.BoolC(was)
	}
	intrinsics["(*time.Ticker).Reset"] = func(i *Interp, fr *frame, fn *ssa.Function, args []value) value {
		t, ok := i.side[args[0]].(*timer)
		if ok {
			d := i.asDur(args[1], "Ticker.Reset")
			t.at, t.period, t.stopped = i.clock+d, d, false
		}
		return nil
	}
}

// ---------------- errors, rand, misc ----------------

func registerMisc() {
	intrinsics["errors.Is"] = func(i *Interp, fr *frame, fn *ssa.Function, args []value) value {
		return i.ctx.BoolC(i.errorsIs(args[0].(iface), args[1].(iface), 0))
	}
	intrinsics["errors.As"] = func(i *Interp, fr *frame, fn *ssa.Function, args []value) value {
		return i.ctx.BoolC(i.errorsAs(args[0].(iface), args[1].(iface), 0))
	}
	intrinsics["github.com/pkg/errors.Is"] = intrinsics["errors.Is"]
	intrinsics["github.com/pkg/errors.As"] = intrinsics["errors.As"]
	intrinsics["github.com/pkg/errors.callers"] = func(i *Interp, fr *frame, fn *ssa.Function, args []value) value {
		return (*value)(nil)
	}
	randRange := func(bits int) intrinsic {
		return func(i *Interp, fr *frame, fn *ssa.Function, args []value) value {
			n := args[len(args)-1].(*smt.Term)
			v := i.newInput("$rand", n.Sort)
			c := i.ctx
			if n.IsConst() && int64(n.C) <= 0 {
				panic(targetPanic{i.newError(Str{s: "invalid argument to Intn"}, nil)})
			}
			i.assume(c.And(c.SLE(c.Const(n.Sort, 0), v), c.SLT(v, n)))
			return v
		}
	}
	for _, n := range []string{"Intn", "Int63n", "Int31n"} {
		intrinsics["math/rand."+n] = randRange(64)
		intrinsics["(*math/rand.Rand)."+n] = randRange(64)
	}
	intrinsics["math/rand.Seed"] = intrNoop
	intrinsics["math/rand.Float64"] = func(i *Interp, fr *frame, fn *ssa.Function, args []value) value {
		return i.ctx.FConst(smt.FP(64), 0.5)
	}
	intrinsics["(*math/rand.Rand).Float64"] = intrinsics["math/rand.Float64"]
	intrinsics["math/rand.NewSource"] = func(i *Interp, fr *frame, fn *ssa.Function, args []value) value { return iface{} }
	intrinsics["math/rand.New"] = func(i *Interp, fr *frame, fn *ssa.Function, args []value) value {
		var cell value = i.zero(i.lookupType("math/rand", "Rand"))
		return &cell
	}
	intrinsics["github.com/google/uuid.New"] = func(i *Interp, fr *frame, fn *ssa.Function, args []value) value {
		// a fresh, path-deterministic identifier (randomness is irrelevant to the properties)
		n, _ := i.side["uuid-counter"].(int)
		n++
		i.side["uuid-counter"] = n
		a := make(array, 16)
		for k := range a {
			a[k] = i.ctx.Const(bv8, 0)
		}
		a[15] = i.ctx.Const(bv8, uint64(n))
		a[14] = i.ctx.Const(bv8, uint64(n>>8))
		return a
	}
	intrinsics["github.com/arana-db/parser/charset.HackSlice"] = func(i *Interp, fr *frame, fn *ssa.Function, args []value) value {
		return i.conv(i.byteSliceType(), types.Typ[types.String], args[0])
	}
	intrinsics["github.com/arana-db/parser/charset.HackString"] = func(i *Interp, fr *frame, fn *ssa.Function, args []value) value {
		return i.conv(types.Typ[types.String], i.byteSliceType(), args[0])
	}
	intrinsics["sort.Slice"] = func(i *Interp, fr *frame, fn *ssa.Function, args []value) value {
		i.sortSlice(fr, args[0].(iface), args[1])
		return nil
	}
	intrinsics["sort.SliceStable"] = intrinsics["sort.Slice"]
	intrinsics["context.WithValue"] = func(i *Interp, fr *frame, fn *ssa.Function, args []value) value {
		f := i.lookupFunc(i.P.ModelPath, "ContextWithValue")
		return i.callSSA(fr, f, args, nil)
	}
}

func (i *Interp) sortSlice(fr *frame, x iface, less value) {
	s, ok := x.v.([]value)
	if !ok {
		i.abort(stInconclusive, "sort.Slice of non-slice")
	}
	// insertion sort; less takes indices, so swap in place
	for a := 1; a < len(s); a++ {
		for b := a; b > 0; b-- {
			r := i.call(fr, less, []value{i.mkInt(int64(b)), i.mkInt(int64(b - 1))})
			if !i.decide(i.boolArg(r, "sort.Slice less"), "sort-less") {
				break
			}
			s[b], s[b-1] = s[b-1], s[b]
		}
	}
}

func (i *Interp) errorsIs(err, target iface, depth int) bool {
	if depth > 50 {
		return false
	}
	if err.t == nil || target.t == nil {
		return err.t == nil && target.t == nil
	}
	if types.Identical(err.t, target.t) && types.Comparable(err.t) {
		if i.decide(i.equals(err.t, err.v, target.v), "errors.Is") {
			return true
		}
	}
	if m := i.findMethod(err.t, "Is"); m != nil && m.Signature.Params().Len() == 1 {
		r := i.callSSA(nil, m, []value{err.v, target}, nil)
		if i.decide(i.boolArg(r, "Is method"), "errors.Is-method") {
			return true
		}
	}
	if m := i.findMethod(err.t, "Unwrap"); m != nil {
		r := i.callSSA(nil, m, []value{err.v}, nil)
		switch r := r.(type) {
		case iface:
			if r.t == nil {
				return false
			}
			return i.errorsIs(r, target, depth+1)
		case []value:
			for _, e := range r {
				if ei := e.(iface); ei.t != nil && i.errorsIs(ei, target, depth+1) {
					return true
				}
			}
		}
	}
	if m := i.findMethod(err.t, "Cause"); m != nil && strings.Contains(err.t.String(), "pkg/errors") {
		_ = m
	}
	return false
}

func (i *Interp) errorsAs(err, target iface, depth int) bool {
	if depth > 50 || err.t == nil {
		return false
	}
	tp, ok := target.t.Underlying().(*types.Pointer)
	if !ok {
		panic(targetPanic{i.newError(Str{s: "errors: target must be a non-nil pointer"}, nil)})
	}
	elem := tp.Elem()
	cell := target.v.(*value)
	if it, ok := elem.Underlying().(*types.Interface); ok {
		if m, _ := types.MissingMethod(err.t, it, true); m == nil {
			*cell = err
			return true
		}
	} else if types.Identical(err.t, elem) {
		*cell = copyVal(err.v)
		return true
	}
	if m := i.findMethod(err.t, "As"); m != nil && m.Signature.Params().Len() == 1 {
		r := i.callSSA(nil, m, []value{err.v, target}, nil)
		if i.decide(i.boolArg(r, "As method"), "errors.As-method") {
			return true
		}
	}
	if m := i.findMethod(err.t, "Unwrap"); m != nil {
		r := i.callSSA(nil, m, []value{err.v}, nil)
		switch r := r.(type) {
		case iface:
			return i.errorsAs(r, target, depth+1)
		case []value:
			for _, e := range r {
				if i.errorsAs(e.(iface), target, depth+1) {
					return true
				}
			}
		}
	}
	return false
}
