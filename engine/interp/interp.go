package interp

import (
	"fmt"
	"go/token"
	"go/types"
	"os"
	"runtime/debug"
	"sort"
	"strings"

	"golang.org/x/tools/go/ssa"

	"verif/engine/smt"
)

type status int

const (
	stOK status = iota
	stPanic
	stInfeasible
	stUnwound
	stInconclusive
	stDeadlock
	stKilled
)

func (s status) String() string {
	return [...]string{"ok", "panic", "infeasible", "unwound", "inconclusive", "deadlock", "killed"}[s]
}

type pathAbort struct {
	st  status
	why string
}

type targetPanic struct{ v value }

type intrinsic func(i *Interp, fr *frame, fn *ssa.Function, args []value) value

// Program is the shared, read-only part.
type Program struct {
	Prog               *ssa.Program
	Pkgs               map[string]*ssa.Package
	ModPath            string // module path of /repo
	VrtPath            string
	ModelPath          string
	runtimeErrorString types.Type
	Sizes              types.Sizes
	BlankImports       map[*ssa.Package][]*ssa.Package
	InitVars           map[*ssa.Package][]*ssa.Global // package-level variables with an initialiser
}

type deferred struct {
	fn    value
	args  []value
	instr *ssa.Defer
	tail  *deferred
}

type frame struct {
	i                *Interp
	caller           *frame
	fn               *ssa.Function
	block, prevBlock *ssa.BasicBlock
	env              map[ssa.Value]value
	locals           []value
	defers           *deferred
	result           value
	panicking        bool
	panic            interface{}
	phitemps         []value
	serial           int
	g                *gor
}

// Interp is the per-path interpreter state (one per worker, reset per path).
type Interp struct {
	P         *Program
	ctx       *smt.Ctx
	ex        *pathState
	w         *Worker
	globals   map[*ssa.Global]*value
	inited    map[*ssa.Package]int // 1 = in progress, 2 = done
	initSteps int64
	// set while vrt.Settle asks whether anybody else could run
	quiescenceTest bool
	settleSeq      int
	initDepth int
	redirects map[*ssa.Function]value
	intrCache map[*ssa.Function]intrinsic
	side      map[interface{}]interface{} // model state keyed by cell address etc.
	steps     int64
	depth     int
	frameSer  int
	funcsSeen map[string]int // /repo functions interpreted (shared across paths of the worker)
	// goroutines
	cur          *gor
	gors         []*gor
	dead         bool
	stateVersion int
	killAck      chan struct{}
	clock        int64 // virtual nanoseconds
	timers       []*timer
	trace        bool
	cfg          *Config
	typeCache    map[string]types.Type
	persistSide  map[interface{}]interface{}
}

func (i *Interp) abort(st status, why string) {
	panic(pathAbort{st, why})
}

func (i *Interp) runtimeErr(msg string) value {
	return iface{t: i.P.runtimeErrorString, v: Str{s: msg}}
}

// targetPanicStr raises a Go run-time panic in the target ("runtime error: " prefix stripped).
func (i *Interp) targetPanicStr(msg string) {
	msg = strings.TrimPrefix(msg, "runtime error: ")
	panic(targetPanic{i.runtimeErr(msg)})
}

func (fr *frame) get(key ssa.Value) value {
	switch key := key.(type) {
	case nil:
		return nil
	case *ssa.Function, *ssa.Builtin:
		return key
	case *ssa.Const:
		return fr.i.constValue(key)
	case *ssa.Global:
		return fr.i.global(key)
	}
	if r, ok := fr.env[key]; ok {
		return r
	}
	panic(fmt.Sprintf("get: no value for %T: %v in %s", key, key.Name(), fr.fn))
}

func (i *Interp) global(g *ssa.Global) *value {
	if g.Pkg != nil {
		i.ensureInit(g.Pkg)
	}
	if r, ok := i.globals[g]; ok {
		return r
	}
	cell := i.zero(deref(g.Type()))
	i.globals[g] = &cell
	return &cell
}

func (i *Interp) constValue(c *ssa.Const) value {
	if c.Value == nil {
		return i.zero(c.Type())
	}
	t := c.Type()
	if tp, ok := t.(*types.TypeParam); ok {
		_ = tp
		return poison{"const of type param"}
	}
	if b, ok := t.Underlying().(*types.Basic); ok {
		switch {
		case b.Info()&types.IsString != 0:
			return Str{s: constantString(c)}
		case b.Info()&types.IsBoolean != 0:
			return i.ctx.BoolC(constantBool(c))
		case b.Info()&types.IsInteger != 0:
			s, _ := sortOf(b)
			if b.Info()&types.IsUnsigned != 0 {
				return i.ctx.Const(s, c.Uint64())
			}
			return i.ctx.Const(s, uint64(c.Int64()))
		case b.Info()&types.IsFloat != 0:
			s, _ := sortOf(b)
			return i.ctx.FConst(s, c.Float64())
		case b.Info()&types.IsComplex != 0:
			return poison{"complex constant"}
		}
	}
	panic(fmt.Sprintf("constValue: %s", c))
}

// ---- package initialisation (lazy) ----

func (i *Interp) inModule(pkg *ssa.Package) bool {
	return strings.HasPrefix(pkg.Pkg.Path(), i.P.ModPath)
}

func (i *Interp) ensureInit(pkg *ssa.Package) {
	if i.inited[pkg] != 0 {
		return
	}
	i.inited[pkg] = 1
	pkg.Build()
	// like the Go runtime, initialise the imported packages first - but only the
	// ones outside the standard library (registrations between third-party and
	// module packages matter; std packages are initialised on first use)
	for _, b := range i.P.BlankImports[pkg] {
		i.ensureInit(b)
	}
	for _, imp := range pkg.Pkg.Imports() {
		if first := strings.SplitN(imp.Path(), "/", 2)[0]; strings.Contains(first, ".") && !strings.Contains(imp.Path(), "/zzverif/") {
			if sp := i.P.Prog.Package(imp); sp != nil {
				i.ensureInit(sp)
			}
		}
	}
	if !i.inModule(pkg) {
		// remember model state (sync.Once etc.) created while a persistent package initialises
		before := make(map[interface{}]bool, len(i.side))
		for k := range i.side {
			before[k] = true
		}
		defer func() {
			if i.persistSide == nil {
				i.persistSide = map[interface{}]interface{}{}
			}
			for k, v := range i.side {
				if !before[k] {
					i.persistSide[k] = v
				}
			}
		}()
	}
	init := pkg.Func("init")
	if init == nil || init.Blocks == nil {
		i.inited[pkg] = 2
		return
	}
	if g, ok := pkg.Members["init$guard"].(*ssa.Global); ok {
		cell := value(i.ctx.False)
		i.globals[g] = &cell
	}
	i.initDepth++
	saveDepth := i.depth
	func() {
		defer func() {
			i.initDepth--
			i.depth = saveDepth
			if r := recover(); r != nil {
				switch r := r.(type) {
				case pathAbort:
					if r.st == stInconclusive {
						// package init could not be completed: variables whose initialiser
						// did not run (still zero) become poison, never a silent zero
						if i.trace {
							fmt.Fprintf(os.Stderr, "init of %s incomplete: %s\n", pkg.Pkg.Path(), r.why)
						}
						i.poisonUninitialised(pkg, "init of "+pkg.Pkg.Path()+" incomplete: "+r.why)
						return
					}
					panic(r)
				case targetPanic:
					if i.trace {
						fmt.Fprintf(os.Stderr, "init of %s panicked: %s\n", pkg.Pkg.Path(), toString(r.v))
					}
					i.poisonUninitialised(pkg, "init of "+pkg.Pkg.Path()+" panicked: "+toString(r.v))
					return
				default:
					panic(r)
				}
			}
		}()
		i.callSSA(nil, init, nil, nil)
	}()
	i.inited[pkg] = 2
}

// ---- defers / panics ----

func (fr *frame) runDefer(d *deferred) {
	var ok bool
	defer func() {
		if !ok {
			r := recover()
			if _, isT := r.(targetPanic); !isT {
				panic(r) // engine abort: propagate
			}
			fr.panicking = true
			fr.panic = r
		}
	}()
	fr.i.call(fr, d.fn, d.args)
	ok = true
}

func (fr *frame) runDefers() {
	for d := fr.defers; d != nil; d = d.tail {
		fr.runDefer(d)
	}
	fr.defers = nil
	if fr.panicking {
		panic(fr.panic)
	}
}

func (i *Interp) lookupMethod(typ types.Type, meth *types.Func) *ssa.Function {
	return i.P.Prog.LookupMethod(typ, meth.Pkg(), meth.Name())
}

type continuation int

const (
	kNext continuation = iota
	kReturn
	kJump
)

func (i *Interp) step() {
	if i.initDepth > 0 {
		// package initialisation is not charged to the path's budget, but is bounded
		i.initSteps++
		if i.initSteps > 400000000 {
			i.initSteps = 0
			i.abort(stInconclusive, "package initialisation does not terminate within 4e8 instructions")
		}
		return
	}
	i.steps++
	if i.steps > i.cfg.StepBudget {
		i.abort(stUnwound, fmt.Sprintf("instruction budget %d exhausted", i.cfg.StepBudget))
	}
}

func (fr *frame) visitInstr(instr ssa.Instruction) continuation {
	i := fr.i
	i.step()
	switch instr := instr.(type) {
	case *ssa.DebugRef:
	case *ssa.UnOp:
		fr.env[instr] = i.unop(instr, fr.get(instr.X))
	case *ssa.BinOp:
		fr.env[instr] = i.binop(instr.Op, instr.X.Type(), fr.get(instr.X), fr.get(instr.Y))
	case *ssa.Call:
		fn, args := fr.prepareCall(&instr.Call)
		fr.env[instr] = i.call(fr, fn, args)
	case *ssa.ChangeInterface:
		fr.env[instr] = fr.get(instr.X)
	case *ssa.ChangeType:
		fr.env[instr] = fr.get(instr.X)
	case *ssa.Convert:
		fr.env[instr] = i.conv(instr.Type(), instr.X.Type(), fr.get(instr.X))
	case *ssa.MultiConvert:
		fr.env[instr] = poison{"MultiConvert"}
	case *ssa.SliceToArrayPointer:
		fr.env[instr] = i.sliceToArrayPointer(instr.Type(), fr.get(instr.X))
	case *ssa.MakeInterface:
		fr.env[instr] = iface{t: instr.X.Type(), v: fr.get(instr.X)}
	case *ssa.Extract:
		tv := fr.get(instr.Tuple)
		if p, ok := tv.(poison); ok {
			fr.env[instr] = p
		} else {
			fr.env[instr] = tv.(tuple)[instr.Index]
		}
	case *ssa.Slice:
		fr.env[instr] = i.slice(instr, fr.get(instr.X), fr.get(instr.Low), fr.get(instr.High), fr.get(instr.Max))
	case *ssa.Return:
		switch len(instr.Results) {
		case 0:
		case 1:
			fr.result = fr.get(instr.Results[0])
		default:
			res := make(tuple, 0, len(instr.Results))
			for _, r := range instr.Results {
				res = append(res, fr.get(r))
			}
			fr.result = res
		}
		fr.block = nil
		return kReturn
	case *ssa.RunDefers:
		fr.runDefers()
	case *ssa.Panic:
		panic(targetPanic{fr.get(instr.X)})
	case *ssa.Send:
		i.chanSend(fr.get(instr.Chan).(*chanv), fr.get(instr.X))
	case *ssa.Store:
		addr := fr.get(instr.Addr)
		p, ok := addr.(*value)
		if !ok {
			if po, isP := addr.(poison); isP {
				i.abort(stInconclusive, "store through unsupported pointer: "+po.why)
			}
			panic(fmt.Sprintf("store to %T", addr))
		}
		if p == nil {
			i.targetPanicStr("runtime error: invalid memory address or nil pointer dereference")
		}
		storeInPlace(p, fr.get(instr.Val))
	case *ssa.If:
		cv := fr.get(instr.Cond)
		ct, ok := cv.(*smt.Term)
		if !ok {
			if po, isP := cv.(poison); isP {
				i.abort(stInconclusive, "branch on unsupported value: "+po.why+" in "+fr.fn.String())
			}
			panic(fmt.Sprintf("if on %T", cv))
		}
		succ := 1
		if ct.IsConst() {
			if ct.C != 0 {
				succ = 0
			}
		} else if i.decideAt(ct, fr, instr) {
			succ = 0
		}
		fr.prevBlock, fr.block = fr.block, fr.block.Succs[succ]
		return kJump
	case *ssa.Jump:
		fr.prevBlock, fr.block = fr.block, fr.block.Succs[0]
		return kJump
	case *ssa.Defer:
		fn, args := fr.prepareCall(&instr.Call)
		defers := &fr.defers
		if instr.DeferStack != nil {
			if into := fr.get(instr.DeferStack); into != nil {
				defers = into.(**deferred)
			}
		}
		*defers = &deferred{fn: fn, args: args, instr: instr, tail: *defers}
	case *ssa.Go:
		fn, args := fr.prepareCall(&instr.Call)
		i.spawn(fn, args)
	case *ssa.MakeChan:
		fr.env[instr] = &chanv{cap: int(i.asInt(fr.get(instr.Size), true, "makechan")), elemT: instr.Type().Underlying().(*types.Chan).Elem()}
	case *ssa.Alloc:
		var addr *value
		if instr.Heap {
			addr = new(value)
			fr.env[instr] = addr
		} else {
			addr = fr.env[instr].(*value)
		}
		*addr = i.zero(deref(instr.Type()))
	case *ssa.MakeSlice:
		ln := i.allocSize(fr.get(instr.Len), "makeslice-len")
		cp := i.allocSize(fr.get(instr.Cap), "makeslice-cap")
		if ln < 0 || cp < ln {
			i.targetPanicStr("runtime error: makeslice: len out of range")
		}
		tElt := instr.Type().Underlying().(*types.Slice).Elem()
		s := make([]value, cp)
		z := i.zero(tElt)
		for k := range s {
			s[k] = copyVal(z)
		}
		fr.env[instr] = s[:ln]
	case *ssa.MakeMap:
		fr.env[instr] = newMap(instr.Type().Underlying().(*types.Map).Key())
	case *ssa.Range:
		x := fr.get(instr.X)
		switch x := x.(type) {
		case *mapv:
			fr.env[instr] = &mapIter{m: x, snap: x.live()}
		case Str:
			if x.opaque {
				i.abort(stInconclusive, "range over opaque string")
			}
			fr.env[instr] = &strIter{s: x}
		case poison:
			i.abort(stInconclusive, "range over unsupported value: "+x.why)
		default:
			panic(fmt.Sprintf("range over %T", x))
		}
	case *ssa.Next:
		fr.env[instr] = fr.get(instr.Iter).(iter).next(i)
	case *ssa.FieldAddr:
		xv := fr.get(instr.X)
		p, ok := xv.(*value)
		if !ok {
			if po, isP := xv.(poison); isP {
				i.abort(stInconclusive, "field of unsupported pointer: "+po.why)
			}
			panic(fmt.Sprintf("FieldAddr on %T in %s", xv, fr.fn))
		}
		if p == nil {
			i.targetPanicStr("runtime error: invalid memory address or nil pointer dereference")
		}
		st, ok := (*p).(structure)
		if !ok {
			if po, isP := (*p).(poison); isP {
				i.abort(stInconclusive, "field of unsupported struct: "+po.why)
			}
			panic(fmt.Sprintf("FieldAddr: cell holds %T in %s", *p, fr.fn))
		}
		fr.env[instr] = &st[instr.Field]
	case *ssa.Field:
		xv := fr.get(instr.X)
		if po, isP := xv.(poison); isP {
			fr.env[instr] = po
		} else {
			fr.env[instr] = xv.(structure)[instr.Field]
		}
	case *ssa.IndexAddr:
		x := fr.get(instr.X)
		switch x := x.(type) {
		case []value:
			k := i.index(fr.get(instr.Index), len(x), isSigned(instr.Index.Type()))
			fr.env[instr] = &x[k]
		case *value:
			if x == nil {
				i.targetPanicStr("runtime error: invalid memory address or nil pointer dereference")
			}
			a := (*x).(array)
			iv := fr.get(instr.Index)
			if t, ok := iv.(*smt.Term); ok && !t.IsConst() && onlyLoaded(instr) {
				// read of a table at a symbolic index: an ite-chain instead of a fork per entry
				var cell value = i.indexArrayValue(a, iv, isSigned(instr.Index.Type()))
				fr.env[instr] = &cell
				break
			}
			k := i.index(iv, len(a), isSigned(instr.Index.Type()))
			fr.env[instr] = &a[k]
		case poison:
			i.abort(stInconclusive, "index of unsupported value: "+x.why)
		default:
			panic(fmt.Sprintf("IndexAddr on %T", x))
		}
	case *ssa.Index:
		x := fr.get(instr.X)
		switch x := x.(type) {
		case array:
			fr.env[instr] = i.indexArrayValue(x, fr.get(instr.Index), isSigned(instr.Index.Type()))
		case Str:
			if x.opaque {
				i.abort(stInconclusive, "index of opaque string")
			}
			k := i.index(fr.get(instr.Index), x.Len(), isSigned(instr.Index.Type()))
			fr.env[instr] = x.at(i.ctx, k)
		case poison:
			fr.env[instr] = x
		default:
			panic(fmt.Sprintf("Index on %T", x))
		}
	case *ssa.Lookup:
		fr.env[instr] = i.lookup(instr, fr.get(instr.X), fr.get(instr.Index))
	case *ssa.MapUpdate:
		m := fr.get(instr.Map)
		mv, ok := m.(*mapv)
		if !ok {
			if po, isP := m.(poison); isP {
				i.abort(stInconclusive, "update of unsupported map: "+po.why)
			}
			panic(fmt.Sprintf("MapUpdate on %T", m))
		}
		i.mapSet(mv, fr.get(instr.Key), copyVal(fr.get(instr.Value)))
	case *ssa.TypeAssert:
		xv := fr.get(instr.X)
		if po, isP := xv.(poison); isP {
			i.abort(stInconclusive, "type assertion on unsupported value: "+po.why)
		}
		fr.env[instr] = i.typeAssert(instr, xv.(iface))
	case *ssa.MakeClosure:
		bindings := make([]value, 0, len(instr.Bindings))
		for _, b := range instr.Bindings {
			bindings = append(bindings, fr.get(b))
		}
		fr.env[instr] = &closure{instr.Fn.(*ssa.Function), bindings}
	case *ssa.Phi:
		panic("unreachable phi")
	case *ssa.Select:
		fr.env[instr] = i.doSelect(fr, instr)
	default:
		panic(fmt.Sprintf("unexpected instruction: %T", instr))
	}
	return kNext
}

// storeInPlace assigns v to the cell at p. Aggregates are stored element-wise
// so that pointers into the old aggregate (&x.f taken before x = T{...}) stay
// valid, as they do in real memory.
func storeInPlace(p *value, v value) {
	switch nv := v.(type) {
	case structure:
		if old, ok := (*p).(structure); ok && len(old) == len(nv) {
			for k := range nv {
				storeInPlace(&old[k], nv[k])
			}
			return
		}
	case array:
		if old, ok := (*p).(array); ok && len(old) == len(nv) {
			for k := range nv {
				storeInPlace(&old[k], nv[k])
			}
			return
		}
	}
	*p = copyVal(v)
}

func (i *Interp) allocSize(v value, site string) int {
	t, ok := v.(*smt.Term)
	if !ok {
		if p, isP := v.(poison); isP {
			i.abort(stInconclusive, "allocation size unsupported: "+p.why)
		}
		panic("allocSize")
	}
	if !t.IsConst() {
		// stated bound: symbolic allocation sizes are enumerated up to MaxAlloc;
		// beyond the bound one representative value is explored (sound, incomplete)
		lim := i.ctx.Const(t.Sort, uint64(i.cfg.MaxAlloc))
		if i.decide(i.ctx.ULE(t, lim), "alloc-in-bound") {
			t = i.concretize(t, site)
		} else {
			i.ex.boundsHit["alloc>"+fmt.Sprint(i.cfg.MaxAlloc)+" (one representative explored)"]++
			// prefer a modest representative
			modest := i.ctx.ULE(t, i.ctx.Const(t.Sort, 1<<16))
			if i.ex.pos >= len(i.ex.prefix) {
				if r, m := i.check(modest, true); r == smt.Sat {
					i.ex.model = m
				} else {
					i.ex.boundsHit["alloc>65536 (not explored)"]++
					i.abort(stInfeasible, "allocation beyond 65536 elements not explored")
				}
			}
			t = i.concretizeOne(t, site)
		}
	}
	n := int64(t.C)
	if t.Sort.W < 64 {
		// sizes are converted to int by ssa before make; keep as unsigned small
	}
	if n < 0 || n > 1<<47 {
		i.targetPanicStr("runtime error: makeslice: len out of range")
	}
	if n > 1<<24 {
		i.abort(stInconclusive, fmt.Sprintf("allocation of %d elements is too large to model", n))
	}
	return int(n)
}

// index checks bounds of idx against n (forking when symbolic) and returns the concrete index.
func (i *Interp) index(idx value, n int, signed bool) int {
	t, ok := idx.(*smt.Term)
	if !ok {
		if p, isP := idx.(poison); isP {
			i.abort(stInconclusive, "index unsupported: "+p.why)
		}
		panic("index")
	}
	if t.IsConst() {
		k := int64(t.C)
		if t.Sort.W < 64 && signed {
			sh := uint(64 - t.Sort.W)
			k = int64(t.C<<sh) >> sh
		}
		if k < 0 || k >= int64(n) {
			i.targetPanicStr(fmt.Sprintf("runtime error: index out of range [%d] with length %d", k, n))
		}
		return int(k)
	}
	if !i.decide(i.ultConst(t, uint64(n)), "index-in-range") {
		i.targetPanicStr(fmt.Sprintf("runtime error: index out of range [sym] with length %d", n))
	}
	ct := i.concretize(t, "index")
	return int(ct.C)
}

// indexArrayValue indexes an array value; for constant tables with a symbolic
// index an ite-chain is built instead of forking.
func (i *Interp) indexArrayValue(x array, idx value, signed bool) value {
	t, ok := idx.(*smt.Term)
	if ok && !t.IsConst() && len(x) > 0 && len(x) <= 256 {
		allConst := true
		for _, e := range x {
			et, ok := e.(*smt.Term)
			if !ok || !et.IsConst() {
				allConst = false
				break
			}
		}
		if allConst {
			c := i.ctx
			if !i.decide(i.ultConst(t, uint64(len(x))), "index-in-range") {
				i.targetPanicStr(fmt.Sprintf("runtime error: index out of range [sym] with length %d", len(x)))
			}
			// run-length compressed: one comparison per run of equal entries
			type run struct {
				hi int // last index of the run
				v  *smt.Term
			}
			var runs []run
			for k := 0; k < len(x); k++ {
				v := x[k].(*smt.Term)
				if n := len(runs); n > 0 && runs[n-1].v == v {
					runs[n-1].hi = k
				} else {
					runs = append(runs, run{k, v})
				}
			}
			r := runs[len(runs)-1].v
			for k := len(runs) - 2; k >= 0; k-- {
				r = c.Ite(i.ultConst(t, uint64(runs[k].hi)+1), runs[k].v, r)
			}
			return r
		}
	}
	return x[i.index(idx, len(x), signed)]
}

// onlyLoaded reports whether the address computed by instr is only ever dereferenced for reading.
func onlyLoaded(instr *ssa.IndexAddr) bool {
	refs := instr.Referrers()
	if refs == nil || len(*refs) == 0 {
		return false
	}
	for _, r := range *refs {
		u, ok := r.(*ssa.UnOp)
		if !ok || u.Op != token.MUL {
			return false
		}
	}
	return true
}

// ultConst is the term t < n (unsigned) where n may not fit t's width.
func (i *Interp) ultConst(t *smt.Term, n uint64) *smt.Term {
	if t.Sort.W < 64 && n > (uint64(1)<<uint(t.Sort.W))-1 {
		return i.ctx.True
	}
	return i.ctx.ULT(t, i.ctx.Const(t.Sort, n))
}

func (i *Interp) sliceToArrayPointer(t types.Type, x value) value {
	s := x.([]value)
	n := int(deref(t).Underlying().(*types.Array).Len())
	if len(s) < n {
		i.targetPanicStr(fmt.Sprintf("runtime error: cannot convert slice with length %d to array or pointer to array with length %d", len(s), n))
	}
	if s == nil {
		return (*value)(nil)
	}
	var v value = array(s[:n:n])
	return &v
}

func (i *Interp) slice(instr *ssa.Slice, x, lo, hi, max value) value {
	var Len, Cap int
	switch x := x.(type) {
	case Str:
		if x.opaque {
			return Str{opaque: true}
		}
		Len = x.Len()
		Cap = Len
	case []value:
		Len, Cap = len(x), cap(x)
	case *value:
		if x == nil {
			i.targetPanicStr("runtime error: invalid memory address or nil pointer dereference")
		}
		a := (*x).(array)
		Len, Cap = len(a), cap(a)
		Cap = Len
	case poison:
		return x
	default:
		panic(fmt.Sprintf("slice of %T", x))
	}
	bound := func(v value, def int, site string) int {
		if v == nil {
			return def
		}
		t := v.(*smt.Term)
		if t.IsConst() {
			sh := uint(64 - t.Sort.W)
			return int(int64(t.C<<sh) >> sh)
		}
		// symbolic bound: in range [0,Cap] or panic
		ok := i.ultConst(t, uint64(Cap)+1)
		if !i.decide(ok, "slice-bound-in-range") {
			i.targetPanicStr("runtime error: slice bounds out of range [sym]")
		}
		return int(i.concretize(t, site).C)
	}
	l := bound(lo, 0, "slice-lo")
	h := bound(hi, Len, "slice-hi")
	m := bound(max, Cap, "slice-max")
	if _, isStr := x.(Str); isStr {
		if h < 0 || h > Len {
			i.targetPanicStr(fmt.Sprintf("runtime error: slice bounds out of range [:%d] with length %d", h, Len))
		}
	} else if h < 0 || h > Cap || m > Cap {
		i.targetPanicStr(fmt.Sprintf("runtime error: slice bounds out of range [:%d] with capacity %d", h, Cap))
	}
	if l < 0 || l > h {
		i.targetPanicStr(fmt.Sprintf("runtime error: slice bounds out of range [%d:%d]", l, h))
	}
	if m < h {
		i.targetPanicStr(fmt.Sprintf("runtime error: slice bounds out of range [:%d:%d]", h, m))
	}
	switch x := x.(type) {
	case Str:
		return i.strSlice(x, l, h)
	case []value:
		if x == nil {
			return []value(nil)
		}
		return x[l:h:m]
	case *value:
		a := (*x).(array)
		return []value(a)[l:h:m]
	}
	panic("unreachable")
}

func (i *Interp) lookup(instr *ssa.Lookup, x, idx value) value {
	switch x := x.(type) {
	case *mapv:
		v, ok := i.mapGet(x, idx)
		if !ok {
			v = i.zero(instr.X.Type().Underlying().(*types.Map).Elem())
		} else {
			v = copyVal(v)
		}
		if instr.CommaOk {
			return tuple{v, i.ctx.BoolC(ok)}
		}
		return v
	case Str:
		if x.opaque {
			i.abort(stInconclusive, "index of opaque string")
		}
		k := i.index(idx, x.Len(), isSigned(instr.Index.Type()))
		return x.at(i.ctx, k)
	case poison:
		i.abort(stInconclusive, "lookup in unsupported value: "+x.why)
	}
	panic(fmt.Sprintf("lookup in %T", x))
}

func (i *Interp) typeAssert(instr *ssa.TypeAssert, x iface) value {
	var v value
	errMsg := ""
	if itype, ok := instr.AssertedType.Underlying().(*types.Interface); ok {
		v = x
		if x.t == nil {
			errMsg = "interface conversion: interface is nil, not " + instr.AssertedType.String()
		} else if meth, _ := types.MissingMethod(x.t, itype, true); meth != nil {
			errMsg = fmt.Sprintf("interface conversion: %v is not %v: missing method %s", x.t, instr.AssertedType, meth.Name())
		}
	} else if x.t != nil && types.Identical(x.t, instr.AssertedType) {
		v = copyVal(x.v)
	} else {
		errMsg = fmt.Sprintf("interface conversion: interface is %v, not %v", x.t, instr.AssertedType)
	}
	if errMsg != "" {
		if !instr.CommaOk {
			panic(targetPanic{i.runtimeErr(errMsg)})
		}
		return tuple{i.zero(instr.AssertedType), i.ctx.False}
	}
	if instr.CommaOk {
		return tuple{v, i.ctx.True}
	}
	return v
}

func (fr *frame) prepareCall(call *ssa.CallCommon) (fn value, args []value) {
	v := fr.get(call.Value)
	if call.Method == nil {
		fn = v
	} else {
		recv, ok := v.(iface)
		if !ok {
			if po, isP := v.(poison); isP {
				fr.i.abort(stInconclusive, "method call on unsupported value: "+po.why)
			}
			panic(fmt.Sprintf("invoke on %T", v))
		}
		if recv.t == nil {
			fr.i.targetPanicStr("runtime error: invalid memory address or nil pointer dereference")
		}
		f := fr.i.lookupMethod(recv.t, call.Method)
		if f == nil {
			panic(fmt.Sprintf("method set for dynamic type %v does not contain %s", recv.t, call.Method))
		}
		fn = f
		args = append(args, recv.v)
	}
	for _, arg := range call.Args {
		args = append(args, fr.get(arg))
	}
	return
}

func (i *Interp) call(caller *frame, fn value, args []value) value {
	switch fn := fn.(type) {
	case *ssa.Function:
		if fn == nil {
			i.targetPanicStr("runtime error: invalid memory address or nil pointer dereference")
		}
		return i.callSSA(caller, fn, args, nil)
	case *closure:
		return i.callSSA(caller, fn.Fn, args, fn.Env)
	case *ssa.Builtin:
		return i.callBuiltin(caller, fn, args)
	case poison:
		i.abort(stInconclusive, "call of unsupported function value: "+fn.why)
	case nativeFunc:
		return fn(i, caller, args)
	case *boundMethod:
		return i.callSSA(caller, fn.fn, append([]value{fn.recv}, args...), nil)
	}
	panic(fmt.Sprintf("cannot call %T", fn))
}

// nativeFunc is an engine-implemented function value (e.g. reflect method values).
type nativeFunc func(i *Interp, caller *frame, args []value) value

func (i *Interp) poisonResult(fn *ssa.Function, why string) value {
	res := fn.Signature.Results()
	switch res.Len() {
	case 0:
		return nil
	case 1:
		return poison{why}
	}
	t := make(tuple, res.Len())
	for k := range t {
		t[k] = poison{why}
	}
	return t
}

func (i *Interp) callSSA(caller *frame, fn *ssa.Function, args []value, env []value) value {
	if r, ok := i.redirects[fn]; ok {
		return i.call(caller, r, args)
	}
	// package init functions: skip imported packages' init (lazy)
	if caller != nil && fn.Name() == "init" && fn.Synthetic != "" && caller.fn.Name() == "init" && caller.fn.Pkg != fn.Pkg {
		return nil
	}
	intr, cached := i.intrCache[fn]
	if !cached {
		intr = i.findIntrinsic(fn)
		i.intrCache[fn] = intr
	}
	if intr != nil {
		return intr(i, caller, fn, args)
	}
	if fn.Pkg != nil {
		if fn.Pkg.Pkg.Path() == "runtime" && fn.Name() == "Error" {
			i.inited[fn.Pkg] = 2 // error values of the runtime: no package state needed
		} else if fn.Pkg.Pkg.Path() == "runtime" {
			i.abort(stInconclusive, "runtime function not modelled: "+fn.String()+" called from "+callerName(caller))
		}
		if i.inited[fn.Pkg] == 0 && fn.Name() != "init" {
			i.ensureInit(fn.Pkg)
		}
	} else if o := fn.Object(); o != nil && o.Pkg() != nil {
		if p := i.P.Prog.Package(o.Pkg()); p != nil && i.inited[p] == 0 {
			i.ensureInit(p)
		}
	}
	if fn.Blocks == nil {
		if fn.Pkg != nil {
			fn.Pkg.Build()
		} else if o := fn.Origin(); o != nil && o.Pkg != nil {
			o.Pkg.Build()
		}
	}
	if fn.Blocks == nil {
		return i.poisonResult(fn, "no code for "+fn.String())
	}
	if fn.TypeParams().Len() > 0 && len(fn.TypeArgs()) == 0 {
		return i.poisonResult(fn, "uninstantiated generic "+fn.String())
	}
	i.noteFunc(fn)
	i.depth++
	if i.depth > i.cfg.MaxDepth {
		i.abort(stUnwound, "call depth limit in "+fn.String())
	}
	i.frameSer++
	fr := &frame{i: i, caller: caller, fn: fn, serial: i.frameSer}
	fr.env = make(map[ssa.Value]value, 16)
	fr.block = fn.Blocks[0]
	fr.locals = make([]value, len(fn.Locals))
	for k, l := range fn.Locals {
		fr.locals[k] = i.zero(deref(l.Type()))
		fr.env[l] = &fr.locals[k]
	}
	if len(args) < len(fn.Params) {
		panic(fmt.Sprintf("call of %s with %d args, want %d", fn, len(args), len(fn.Params)))
	}
	for k, p := range fn.Params {
		fr.env[p] = args[k]
	}
	for k, fv := range fn.FreeVars {
		fr.env[fv] = env[k]
	}
	inInitCall := i.initDepth > 0 && caller != nil && caller.fn.Name() == "init" && caller.fn.Synthetic != ""
	if inInitCall {
		// a failing initialiser poisons only its own result
		var res value
		func() {
			defer func() {
				if r := recover(); r != nil {
					if pa, ok := r.(pathAbort); ok && pa.st == stInconclusive {
						res = i.poisonResult(fn, "init: "+pa.why)
						return
					}
					if tp, ok := r.(targetPanic); ok {
						res = i.poisonResult(fn, "init panicked: "+toString(tp.v))
						return
					}
					if _, ok := r.(pathAbort); ok {
						panic(r)
					}
					res = i.poisonResult(fn, fmt.Sprintf("init: engine error: %v", r))
				}
			}()
			d := i.depth
			for fr.block != nil {
				fr.runFrame()
			}
			i.depth = d
			res = fr.result
		}()
		i.depth--
		return res
	}
	for fr.block != nil {
		fr.runFrame()
	}
	i.depth--
	return fr.result
}

func (i *Interp) noteFunc(fn *ssa.Function) {
	var pkgPath string
	if fn.Pkg != nil {
		pkgPath = fn.Pkg.Pkg.Path()
	} else if o := fn.Object(); o != nil && o.Pkg() != nil {
		pkgPath = o.Pkg().Path()
	}
	if strings.HasPrefix(pkgPath, i.P.ModPath) && !strings.Contains(pkgPath, "/zzverif/") {
		i.funcsSeen[fn.String()]++
	}
}

func (fr *frame) runFrame() {
	depth := fr.i.depth
	defer func() {
		if fr.block == nil {
			return
		}
		r := recover()
		if _, ok := r.(targetPanic); !ok {
			panic(r) // engine abort or engine bug: propagate untouched
		}
		fr.i.depth = depth
		fr.panicking = true
		fr.panic = r
		fr.runDefers()
		fr.block = fr.fn.Recover
		if fr.block == nil {
			// recovered in a function without named results: return zero values
			fr.result = fr.i.zeroResults(fr.fn)
		}
	}()
	for {
		nonPhis := fr.executePhis()
		for _, instr := range nonPhis {
			if fr.i.trace {
				fmt.Fprintf(os.Stderr, "%s%s: %v\n", strings.Repeat(" ", fr.i.depth), fr.fn.Name(), instr)
			}
			if fr.visitInstr(instr) != kNext {
				break
			}
		}
		if fr.block == nil {
			return
		}
	}
}

func (i *Interp) zeroResults(fn *ssa.Function) value {
	res := fn.Signature.Results()
	switch res.Len() {
	case 0:
		return nil
	case 1:
		return i.zero(res.At(0).Type())
	}
	t := make(tuple, res.Len())
	for k := range t {
		t[k] = i.zero(res.At(k).Type())
	}
	return t
}

func (fr *frame) executePhis() []ssa.Instruction {
	firstNonPhi := -1
	for k, instr := range fr.block.Instrs {
		if _, ok := instr.(*ssa.Phi); !ok {
			firstNonPhi = k
			break
		}
	}
	nonPhis := fr.block.Instrs[firstNonPhi:]
	if firstNonPhi > 0 {
		phis := fr.block.Instrs[:firstNonPhi]
		predIndex := -1
		for k, p := range fr.block.Preds {
			if p == fr.prevBlock {
				predIndex = k
				break
			}
		}
		fr.phitemps = fr.phitemps[:0]
		for _, phi := range phis {
			fr.phitemps = append(fr.phitemps, fr.get(phi.(*ssa.Phi).Edges[predIndex]))
		}
		for k, phi := range phis {
			fr.env[phi.(*ssa.Phi)] = fr.phitemps[k]
		}
	}
	return nonPhis
}

func (i *Interp) doRecover(caller *frame) value {
	if caller != nil && !caller.panicking && caller.caller != nil && caller.caller.panicking {
		caller.caller.panicking = false
		p := caller.caller.panic
		caller.caller.panic = nil
		if tp, ok := p.(targetPanic); ok {
			if _, isI := tp.v.(iface); isI {
				return tp.v
			}
			return tp.v
		}
		panic(fmt.Sprintf("unexpected panic %T in recover", p))
	}
	return iface{}
}

// ---- builtins ----

func (i *Interp) callBuiltin(caller *frame, fn *ssa.Builtin, args []value) value {
	c := i.ctx
	i64 := smt.BV(64)
	for _, a := range args {
		if p, ok := a.(poison); ok {
			switch fn.Name() {
			case "print", "println", "panic", "append":
			default:
				return p
			}
		}
	}
	switch fn.Name() {
	case "append":
		if len(args) == 1 {
			return args[0]
		}
		if s, ok := args[1].(Str); ok {
			if s.opaque {
				return poison{"append of opaque string"}
			}
			ts := s.terms(c)
			vs := make([]value, len(ts))
			for k, t := range ts {
				vs[k] = t
			}
			args[1] = vs
		}
		a, okA := args[0].([]value)
		b, okB := args[1].([]value)
		if !okA || !okB {
			return poison{"append of unsupported"}
		}
		if len(b) == 0 {
			return a
		}
		// copy elements (aggregate values must not alias)
		if len(a)+len(b) <= cap(a) {
			r := a[:len(a)+len(b)]
			for k, e := range b {
				r[len(a)+k] = copyVal(e)
			}
			return r
		}
		nc := 2*cap(a) + len(b)
		r := make([]value, len(a), nc)
		copy(r, a)
		for _, e := range b {
			r = append(r, copyVal(e))
		}
		return r
	case "copy":
		dst := args[0].([]value)
		var n int
		switch src := args[1].(type) {
		case []value:
			n = len(src)
			if len(dst) < n {
				n = len(dst)
			}
			tmp := make([]value, n)
			for k := 0; k < n; k++ {
				tmp[k] = copyVal(src[k])
			}
			for k := 0; k < n; k++ {
				storeInPlace(&dst[k], tmp[k])
			}
		case Str:
			if src.opaque {
				i.abort(stInconclusive, "copy from opaque string")
			}
			n = src.Len()
			if len(dst) < n {
				n = len(dst)
			}
			for k := 0; k < n; k++ {
				dst[k] = src.at(c, k)
			}
		}
		return c.Const(i64, uint64(n))
	case "close":
		i.chanClose(args[0].(*chanv))
		return nil
	case "delete":
		i.mapDelete(args[0].(*mapv), args[1])
		return nil
	case "print", "println":
		return nil
	case "len":
		switch x := args[0].(type) {
		case Str:
			if x.opaque && x.doc == nil {
				return poison{"len of opaque string"}
			}
			return c.Const(i64, uint64(x.Len()))
		case array:
			return c.Const(i64, uint64(len(x)))
		case *value:
			if x == nil {
				return c.Const(i64, 0)
			}
			return c.Const(i64, uint64(len((*x).(array))))
		case []value:
			return c.Const(i64, uint64(len(x)))
		case *mapv:
			return c.Const(i64, uint64(x.len()))
		case *chanv:
			if x == nil {
				return c.Const(i64, 0)
			}
			return c.Const(i64, uint64(len(x.buf)))
		}
		panic(fmt.Sprintf("len of %T", args[0]))
	case "cap":
		switch x := args[0].(type) {
		case array:
			return c.Const(i64, uint64(len(x)))
		case *value:
			return c.Const(i64, uint64(len((*x).(array))))
		case []value:
			return c.Const(i64, uint64(cap(x)))
		case *chanv:
			if x == nil {
				return c.Const(i64, 0)
			}
			return c.Const(i64, uint64(x.cap))
		}
		panic(fmt.Sprintf("cap of %T", args[0]))
	case "min", "max":
		r := args[0]
		for _, a := range args[1:] {
			rt, at := r.(*smt.Term), a.(*smt.Term)
			var less *smt.Term
			if rt.Sort.K == smt.KFP {
				less = c.FCmp(smt.OpFLT, at, rt)
			} else if isSigned(fn.Type().(*types.Signature).Params().At(0).Type()) {
				less = c.SLT(at, rt)
			} else {
				less = c.ULT(at, rt)
			}
			if fn.Name() == "max" {
				less = c.Not(c.Or(less, i.equals(nil, at, rt)))
			}
			r = c.Ite(less, at, rt)
		}
		return r
	case "clear":
		switch x := args[0].(type) {
		case *mapv:
			x.clear()
		case []value:
			// zero elements: need elem type
			et := fn.Type().(*types.Signature).Params().At(0).Type().Underlying().(*types.Slice).Elem()
			for k := range x {
				x[k] = i.zero(et)
			}
		}
		return nil
	case "panic":
		panic(targetPanic{args[0]})
	case "recover":
		return i.doRecover(caller)
	case "ssa:wrapnilchk":
		recv := args[0]
		if p, ok := recv.(*value); ok && p == nil {
			recvType, _ := args[1].(Str).Concrete()
			methodName, _ := args[2].(Str).Concrete()
			i.targetPanicStr(fmt.Sprintf("value method %s.%s called using nil *%s pointer", recvType, methodName, recvType))
		}
		return recv
	case "ssa:deferstack":
		return &caller.defers
	case "String": // unsafe.String(ptr, len)
		n := int(i.asInt(args[1], true, "unsafe.String-len"))
		if sd, ok := args[0].(sliceData); ok {
			if n == 0 {
				return Str{}
			}
			ts := make([]*smt.Term, n)
			for k := 0; k < n; k++ {
				ts[k] = sd.s[k].(*smt.Term)
			}
			return mkStr(ts)
		}
		if n == 0 {
			return Str{}
		}
		return poison{"unsafe.String of plain pointer"}
	case "SliceData":
		s := args[0].([]value)
		return sliceData{s: s}
	case "StringData":
		s := args[0].(Str)
		return sliceData{str: &s}
	case "Slice": // unsafe.Slice(ptr, len)
		n := int(i.asInt(args[1], true, "unsafe.Slice-len"))
		if sd, ok := args[0].(sliceData); ok {
			if sd.str != nil {
				ts := sd.str.terms(c)
				r := make([]value, n)
				for k := 0; k < n; k++ {
					r[k] = ts[k]
				}
				return r
			}
			return sd.s[:n:n]
		}
		return poison{"unsafe.Slice of plain pointer"}
	case "Add", "Offsetof", "Alignof", "Sizeof":
		return poison{"unsafe." + fn.Name()}
	}
	panic("unknown built-in: " + fn.Name())
}

// ---- run one entry function on this interpreter ----

// reset prepares for a new path.
func (i *Interp) reset() {
	// packages outside the module under test (std, third party) are initialised
	// once per worker and their state is kept across paths; the module's own
	// packages are re-initialised for every path
	ng := map[*ssa.Global]*value{}
	ni := map[*ssa.Package]int{}
	for g, c := range i.globals {
		if g.Pkg != nil && !i.inModule(g.Pkg) && i.inited[g.Pkg] == 2 {
			ng[g] = c
		}
	}
	for p, st := range i.inited {
		if st == 2 && !i.inModule(p) {
			ni[p] = 2
		}
	}
	i.globals = ng
	i.inited = ni
	i.redirects = map[*ssa.Function]value{}
	i.side = map[interface{}]interface{}{}
	for k, v := range i.persistSide {
		i.side[k] = v
	}
	i.steps = 0
	i.depth = 0
	i.initDepth = 0
	i.frameSer = 0
	i.gors = nil
	i.cur = nil
	i.dead = false
	i.clock = 1_700_000_000_000_000_000
	i.timers = nil
}

// runEntry executes fn and classifies the outcome.
func (i *Interp) runEntry(fn *ssa.Function) (st status, why string) {
	defer func() {
		if r := recover(); r != nil {
			switch r := r.(type) {
			case pathAbort:
				st, why = r.st, r.why
			case targetPanic:
				st, why = stPanic, i.panicString(r.v)
			default:
				st = stInconclusive
				stack := string(debug.Stack())
				if len(stack) > 3000 {
					stack = stack[:3000]
				}
				why = fmt.Sprintf("engine error: %v\n%s", r, stack)
			}
		}
		i.killGoroutines()
	}()
	i.startMain()
	i.callSSA(nil, fn, nil, nil)
	return stOK, ""
}

func (i *Interp) panicString(v value) string {
	if ifc, ok := v.(iface); ok && ifc.t != nil {
		if s, ok := ifc.v.(Str); ok {
			return s.String()
		}
		// error values: try Error()
		func() {
			defer func() { recover() }()
			if m := i.findMethod(ifc.t, "Error"); m != nil {
				r := i.callSSA(nil, m, []value{ifc.v}, nil)
				if s, ok := r.(Str); ok {
					v = s
				}
			}
		}()
		if s, ok := v.(Str); ok {
			return ifc.t.String() + ": " + s.String()
		}
	}
	return toString(v)
}

func (i *Interp) findMethod(t types.Type, name string) *ssa.Function {
	ms := i.P.Prog.MethodSets.MethodSet(t)
	for k := 0; k < ms.Len(); k++ {
		sel := ms.At(k)
		if sel.Obj().Name() == name {
			return i.P.Prog.MethodValue(sel)
		}
	}
	return nil
}

func (i *Interp) FuncsSeen() []string {
	var r []string
	for k := range i.funcsSeen {
		r = append(r, k)
	}
	sort.Strings(r)
	return r
}

var _ = token.NoPos

func callerName(fr *frame) string {
	out := ""
	for k := 0; fr != nil && k < 6; k++ {
		out += " <- " + fr.fn.String()
		fr = fr.caller
	}
	return out
}

// poisonUninitialised marks the package-level variables of pkg that have an
// initialiser but still hold their zero value (the initialiser did not run, or
// legitimately produced zero - then this is only conservative).
func (i *Interp) poisonUninitialised(pkg *ssa.Package, why string) {
	for _, g := range i.P.InitVars[pkg] {
		cell, ok := i.globals[g]
		if !ok {
			c := value(poison{why})
			i.globals[g] = &c
			continue
		}
		if isZeroValue(*cell) {
			*cell = poison{why}
		}
	}
}

func isZeroValue(v value) bool {
	switch x := v.(type) {
	case nil:
		return true
	case *smt.Term:
		return x.IsConst() && x.C == 0
	case Str:
		return !x.opaque && x.sym == nil && x.s == ""
	case iface:
		return x.t == nil
	case *value:
		return x == nil
	case structure:
		for _, f := range x {
			if !isZeroValue(f) {
				return false
			}
		}
		return true
	case array:
		for _, f := range x {
			if !isZeroValue(f) {
				return false
			}
		}
		return true
	}
	return isNilValue(v)
}
