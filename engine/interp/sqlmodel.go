package interp

import (
	"fmt"
	"go/types"
	"strconv"
	"strings"

	"golang.org/x/tools/go/ssa"

	"verif/engine/smt"
)

// sqlIntrinsic maps database/sql entry points to the symsql model
// (harness/models/sql.go) and implements the model's own intrinsics.
func (i *Interp) sqlIntrinsic(fn *ssa.Function, name string) intrinsic {
	if strings.HasPrefix(name, i.P.ModelPath+".") {
		short := name[len(i.P.ModelPath)+1:]
		switch {
		case strings.HasPrefix(short, "wrap"):
			return sqlWrap
		case strings.HasPrefix(short, "unwrap"):
			return sqlUnwrap
		case short == "convertArg":
			return sqlConvertArg
		case short == "convertAssign":
			return sqlConvertAssign
		}
		return nil
	}
	var model string
	switch {
	case strings.HasPrefix(name, "(*database/sql."):
		rest := name[len("(*database/sql."):]
		k := strings.Index(rest, ").")
		if k < 0 {
			return nil
		}
		typ, meth := rest[:k], rest[k+2:]
		switch typ {
		case "DB", "Conn", "Tx", "Stmt", "Rows", "Row", "ColumnType":
			model = "SQL_" + typ + "_" + meth
		default:
			return nil
		}
	case name == "database/sql.OpenDB":
		model = "SQL_OpenDB"
	case name == "database/sql.convertAssign":
		// used by the Null* scanners of the real package
		return sqlConvertAssign
	default:
		return nil
	}
	if !ssaIsExported(fn) && model != "SQL_OpenDB" {
		return nil
	}
	mf := i.lookupFunc(i.P.ModelPath, model)
	if mf == nil {
		return func(i *Interp, fr *frame, fn *ssa.Function, args []value) value {
			i.abort(stInconclusive, "database/sql API not modelled: "+name)
			return nil
		}
	}
	return func(i *Interp, fr *frame, fn *ssa.Function, args []value) value {
		return i.callSSA(fr, mf, args, nil)
	}
}

func ssaIsExported(fn *ssa.Function) bool {
	n := fn.Name()
	return n != "" && n[0] >= 'A' && n[0] <= 'Z'
}

func sqlWrap(i *Interp, fr *frame, fn *ssa.Function, args []value) value {
	rt := fn.Signature.Results().At(0).Type()
	var cell value = i.zero(deref(rt))
	p := &cell
	i.side[p] = args[0]
	return p
}

func sqlUnwrap(i *Interp, fr *frame, fn *ssa.Function, args []value) value {
	p, ok := args[0].(*value)
	if !ok {
		i.abort(stInconclusive, "database/sql handle is an unsupported value")
	}
	if p == nil {
		i.targetPanicStr("runtime error: invalid memory address or nil pointer dereference")
	}
	m, ok := i.side[p]
	if !ok {
		i.abort(stInconclusive, "database/sql handle was not created through the model: "+fn.Name())
	}
	return m
}

func (i *Interp) basicType(k types.BasicKind) types.Type { return types.Typ[k] }

func (i *Interp) byteSliceType() types.Type { return types.NewSlice(types.Typ[types.Uint8]) }

// sqlConvertArg: driver.DefaultParameterConverter semantics.
func sqlConvertArg(i *Interp, fr *frame, fn *ssa.Function, args []value) value {
	v := args[0].(iface)
	r, err := i.toDriverValue(v, 0)
	if err != "" {
		return tuple{iface{}, i.newError(Str{s: err}, nil)}
	}
	return tuple{r, iface{}}
}

func (i *Interp) toDriverValue(v iface, depth int) (iface, string) {
	if v.t == nil {
		return iface{}, ""
	}
	if _, isP := v.v.(poison); isP {
		i.abort(stInconclusive, "SQL argument is an unsupported value")
	}
	if tt := i.lookupType("time", "Time"); tt != nil && types.Identical(v.t, tt) {
		return v, ""
	}
	// driver.Valuer
	if m := i.findMethod(v.t, "Value"); m != nil && m.Signature.Params().Len() == 0 && m.Signature.Results().Len() == 2 {
		if p, ok := v.v.(*value); ok && p == nil {
			return iface{}, ""
		}
		r := i.callSSA(nil, m, []value{v.v}, nil).(tuple)
		if e := r[1].(iface); e.t != nil {
			return iface{}, "valuer error"
		}
		return i.toDriverValue(r[0].(iface), depth+1)
	}
	c := i.ctx
	switch u := v.t.Underlying().(type) {
	case *types.Basic:
		t, _ := v.v.(*smt.Term)
		switch {
		case u.Info()&types.IsString != 0:
			return iface{t: types.Typ[types.String], v: v.v}, ""
		case u.Info()&types.IsBoolean != 0:
			return iface{t: types.Typ[types.Bool], v: v.v}, ""
		case u.Info()&types.IsInteger != 0:
			if u.Info()&types.IsUnsigned != 0 {
				w := c.ZExt(t, 64)
				if t.Sort.W == 64 {
					if i.decide(c.SLT(w, c.Const(i64s, 0)), "uint64-high-bit") {
						return iface{}, "sql: converting argument: uint64 values with high bit set are not supported"
					}
				}
				return iface{t: types.Typ[types.Int64], v: w}, ""
			}
			return iface{t: types.Typ[types.Int64], v: c.SExt(t, 64)}, ""
		case u.Info()&types.IsFloat != 0:
			return iface{t: types.Typ[types.Float64], v: c.FToF(t, smt.FP(64))}, ""
		}
	case *types.Slice:
		if eb, ok := u.Elem().Underlying().(*types.Basic); ok && eb.Kind() == types.Uint8 {
			return iface{t: i.byteSliceType(), v: v.v}, ""
		}
	case *types.Pointer:
		p := v.v.(*value)
		if p == nil {
			return iface{}, ""
		}
		if depth > 4 {
			break
		}
		return i.toDriverValue(iface{t: u.Elem(), v: copyVal(*p)}, depth+1)
	}
	return iface{}, fmt.Sprintf("sql: converting argument: unsupported type %s", v.t)
}

// sqlConvertAssign: database/sql.convertAssign for the destination kinds the
// client uses.
func sqlConvertAssign(i *Interp, fr *frame, fn *ssa.Function, args []value) value {
	dest := args[0].(iface)
	src := args[1].(iface)
	if msg := i.convertAssign(fr, dest, src); msg != "" {
		return i.newError(Str{s: msg}, nil)
	}
	return iface{}
}

func (i *Interp) convertAssign(fr *frame, dest, src iface) string {
	if dest.t == nil {
		return "destination is nil"
	}
	pt, ok := dest.t.Underlying().(*types.Pointer)
	if !ok {
		return "destination not a pointer"
	}
	cell, _ := dest.v.(*value)
	if cell == nil {
		return "destination pointer is nil"
	}
	// sql.Scanner
	if m := i.findMethod(dest.t, "Scan"); m != nil && m.Signature.Params().Len() == 1 {
		if _, isI := m.Signature.Params().At(0).Type().Underlying().(*types.Interface); isI {
			var sv value = src
			if sl, ok := src.v.([]value); ok && src.t != nil { // bytes are copied
				cp := make([]value, len(sl))
				copy(cp, sl)
				sv = iface{t: src.t, v: cp}
			}
			r := i.callSSA(fr, m, []value{dest.v, sv}, nil)
			if e, ok := r.(iface); ok && e.t != nil {
				return "scanner error"
			}
			return ""
		}
	}
	et := pt.Elem()
	c := i.ctx
	if _, isIface := et.Underlying().(*types.Interface); isIface {
		if sl, ok := src.v.([]value); ok && src.t != nil {
			cp := make([]value, len(sl))
			copy(cp, sl)
			*cell = iface{t: src.t, v: cp}
		} else {
			*cell = src
		}
		return ""
	}
	if src.t == nil {
		switch u := et.Underlying().(type) {
		case *types.Pointer:
			*cell = (*value)(nil)
			return ""
		case *types.Slice:
			if eb, ok := u.Elem().Underlying().(*types.Basic); ok && eb.Kind() == types.Uint8 {
				*cell = []value(nil)
				return ""
			}
		}
		return fmt.Sprintf("converting NULL to %s is unsupported", et)
	}
	if tt := i.lookupType("time", "Time"); tt != nil && types.Identical(et, tt) {
		if types.Identical(src.t, tt) {
			storeInPlace(cell, src.v)
			return ""
		}
		return "unsupported Scan, storing driver.Value type " + src.t.String() + " into type *time.Time"
	}
	srcStr, srcIsStr := src.v.(Str)
	srcBytes, srcIsBytes := src.v.([]value)
	srcTerm, srcIsTerm := src.v.(*smt.Term)
	switch u := et.Underlying().(type) {
	case *types.Basic:
		switch {
		case u.Info()&types.IsString != 0:
			switch {
			case srcIsStr:
				*cell = srcStr
			case srcIsBytes:
				*cell = i.conv(types.Typ[types.String], i.byteSliceType(), srcBytes)
			case srcIsTerm && srcTerm.IsConst():
				nv, _ := i.nativeOf(src.t, srcTerm)
				*cell = Str{s: fmt.Sprint(nv)}
			case srcIsTerm:
				*cell = Str{opaque: true}
			default:
				return "unsupported Scan into *string"
			}
			return ""
		case u.Info()&types.IsBoolean != 0:
			if srcIsTerm && srcTerm.Sort.K == smt.KBool {
				*cell = srcTerm
				return ""
			}
			if srcIsTerm && srcTerm.Sort.K == smt.KBV {
				one := c.Eq(srcTerm, c.Const(srcTerm.Sort, 1))
				zero := c.Eq(srcTerm, c.Const(srcTerm.Sort, 0))
				if !i.decide(c.Or(one, zero), "scan-bool-range") {
					return "sql/driver: couldn't convert to bool"
				}
				*cell = one
				return ""
			}
			return "unsupported Scan into *bool"
		case u.Info()&types.IsInteger != 0:
			ds, _ := sortOf(u)
			var t64 *smt.Term
			switch {
			case srcIsTerm && srcTerm.Sort.K == smt.KBV:
				t64 = c.SExt(srcTerm, 64)
			case srcIsTerm && srcTerm.Sort.K == smt.KBool:
				t64 = c.Ite(srcTerm, c.Const(i64s, 1), c.Const(i64s, 0))
			case srcIsStr || srcIsBytes:
				var s Str
				if srcIsStr {
					s = srcStr
				} else {
					s = i.conv(types.Typ[types.String], i.byteSliceType(), srcBytes).(Str)
				}
				cs, ok := s.Concrete()
				if !ok {
					i.abort(stInconclusive, "Scan of symbolic text into an integer")
				}
				n, err := strconv.ParseInt(cs, 10, 64)
				if err != nil {
					return "converting driver.Value type string to a int: invalid syntax"
				}
				t64 = c.Const(i64s, uint64(n))
			default:
				return "unsupported Scan into integer"
			}
			if ds.W < 64 {
				// range check as strconv.ParseInt(…, bitSize) does
				var inRange *smt.Term
				if u.Info()&types.IsUnsigned != 0 {
					inRange = c.ULE(t64, c.Const(i64s, (uint64(1)<<uint(ds.W))-1))
				} else {
					lo := c.Const(i64s, uint64(-(int64(1) << uint(ds.W-1))))
					hi := c.Const(i64s, uint64((int64(1)<<uint(ds.W-1))-1))
					inRange = c.And(c.SLE(lo, t64), c.SLE(t64, hi))
				}
				if !i.decide(inRange, "scan-int-range") {
					return "converting driver.Value: value out of range"
				}
				*cell = c.Extract(t64, ds.W-1, 0)
			} else {
				if u.Info()&types.IsUnsigned != 0 {
					if i.decide(c.SLT(t64, c.Const(i64s, 0)), "scan-uint-negative") {
						return "converting driver.Value: value out of range"
					}
				}
				*cell = t64
			}
			return ""
		case u.Info()&types.IsFloat != 0:
			ds, _ := sortOf(u)
			if srcIsStr || srcIsBytes {
				var s Str
				if srcIsStr {
					s = srcStr
				} else {
					s = i.conv(types.Typ[types.String], i.byteSliceType(), srcBytes).(Str)
				}
				cs, ok := s.Concrete()
				if !ok {
					i.abort(stInconclusive, "Scan of symbolic text into a float")
				}
				f, err := strconv.ParseFloat(cs, ds.W)
				if err != nil {
					return "converting driver.Value type string to a float: invalid syntax"
				}
				*cell = c.FConst(ds, f)
				return ""
			}
			if srcIsTerm && srcTerm.Sort.K == smt.KFP {
				if srcTerm.Sort.W < ds.W {
					// database/sql goes through the shortest decimal text of the narrower
					// value (asString, then ParseFloat): not the same as widening
					if !srcTerm.IsConst() {
						i.abort(stInconclusive, "Scan of a symbolic float32 into a float64")
					}
					txt := strconv.FormatFloat(smt.BitsToFloat(srcTerm.Sort, srcTerm.C), 'g', -1, srcTerm.Sort.W)
					f, _ := strconv.ParseFloat(txt, ds.W)
					*cell = c.FConst(ds, f)
					return ""
				}
				*cell = c.FToF(srcTerm, ds)
				return ""
			}
			if srcIsTerm && srcTerm.Sort.K == smt.KBV {
				*cell = c.FFromInt(srcTerm, true, ds)
				return ""
			}
			return "unsupported Scan into float"
		}
	case *types.Slice:
		if eb, ok := u.Elem().Underlying().(*types.Basic); ok && eb.Kind() == types.Uint8 {
			switch {
			case srcIsBytes:
				cp := make([]value, len(srcBytes))
				copy(cp, srcBytes)
				*cell = cp
			case srcIsStr:
				*cell = i.conv(i.byteSliceType(), types.Typ[types.String], srcStr)
			case srcIsTerm && srcTerm.IsConst():
				nv, _ := i.nativeOf(src.t, srcTerm)
				*cell = i.fromNative([]byte(fmt.Sprint(nv)))
			default:
				*cell = poison{"Scan of symbolic number into []byte"}
			}
			return ""
		}
	case *types.Pointer:
		// allocate and recurse
		var inner value = i.zero(u.Elem())
		ip := &inner
		if msg := i.convertAssign(fr, iface{t: et, v: ip}, src); msg != "" {
			return msg
		}
		*cell = ip
		return ""
	}
	return fmt.Sprintf("unsupported Scan, storing driver.Value type %s into type %s", src.t, dest.t)
}
