package interp

import (
	"fmt"
	"go/types"
	"os"
	"path/filepath"
	"strings"

	"golang.org/x/tools/go/packages"
	"golang.org/x/tools/go/ssa"
	"golang.org/x/tools/go/ssa/ssautil"
)

type LoadSpec struct {
	RepoDir   string            // /repo
	ModPath   string            // seata.apache.org/seata-go
	Patterns  []string          // package patterns relative to module, e.g. ./pkg/remoting/getty
	Overlay   map[string]string // virtual path -> real file
	VrtDir    string            // /verif/harness/vrt
	ModelsDir string            // /verif/harness/models
}

// Load type-checks the packages of the current working tree (plus overlaid
// harness files) and creates SSA for the whole dependency closure.
func Load(spec LoadSpec) (*Program, error) {
	overlay := map[string][]byte{}
	add := func(virt, real string) error {
		b, err := os.ReadFile(real)
		if err != nil {
			return err
		}
		overlay[virt] = b
		return nil
	}
	for v, r := range spec.Overlay {
		if err := add(v, r); err != nil {
			return nil, err
		}
	}
	vrtVirt := filepath.Join(spec.RepoDir, "pkg/zzverif/vrt")
	modelsVirt := filepath.Join(spec.RepoDir, "pkg/zzverif/models")
	for _, d := range []struct{ virt, real string }{{vrtVirt, spec.VrtDir}, {modelsVirt, spec.ModelsDir}} {
		ents, err := os.ReadDir(d.real)
		if err != nil {
			return nil, err
		}
		for _, e := range ents {
			if strings.HasSuffix(e.Name(), ".go") && !strings.HasSuffix(e.Name(), "_test.go") {
				if err := add(filepath.Join(d.virt, e.Name()), filepath.Join(d.real, e.Name())); err != nil {
					return nil, err
				}
			}
		}
	}
	cfg := &packages.Config{
		Mode:    packages.LoadAllSyntax,
		Dir:     spec.RepoDir,
		Overlay: overlay,
		Env:     append(os.Environ(), "GOFLAGS=-mod=mod", "GOPROXY=off", "GOSUMDB=off", "GOTOOLCHAIN=local"),
	}
	pats := append([]string{}, spec.Patterns...)
	pats = append(pats, "./pkg/zzverif/vrt", "./pkg/zzverif/models")
	pkgs, err := packages.Load(cfg, pats...)
	if err != nil {
		return nil, err
	}
	var errs []string
	packages.Visit(pkgs, nil, func(p *packages.Package) {
		for _, e := range p.Errors {
			if len(errs) < 20 {
				errs = append(errs, e.Error())
			}
		}
	})
	if len(errs) > 0 {
		return nil, fmt.Errorf("load errors:\n%s", strings.Join(errs, "\n"))
	}
	prog, _ := ssautil.AllPackages(pkgs, ssa.InstantiateGenerics)
	p := &Program{Prog: prog, Pkgs: map[string]*ssa.Package{}, ModPath: spec.ModPath,
		VrtPath: spec.ModPath + "/pkg/zzverif/vrt", ModelPath: spec.ModPath + "/pkg/zzverif/models"}
	for _, sp := range prog.AllPackages() {
		p.Pkgs[sp.Pkg.Path()] = sp
	}
	p.BlankImports = map[*ssa.Package][]*ssa.Package{}
	p.InitVars = map[*ssa.Package][]*ssa.Global{}
	packages.Visit(pkgs, nil, func(pk *packages.Package) {
		sp := p.Pkgs[pk.PkgPath]
		if sp == nil {
			return
		}
		if pk.TypesInfo != nil {
			for _, in := range pk.TypesInfo.InitOrder {
				for _, v := range in.Lhs {
					if g, ok := sp.Members[v.Name()].(*ssa.Global); ok {
						p.InitVars[sp] = append(p.InitVars[sp], g)
					}
				}
			}
		}
		for _, f := range pk.Syntax {
			for _, im := range f.Imports {
				if im.Name != nil && im.Name.Name == "_" {
					path := strings.Trim(im.Path.Value, "\"")
					if ip, ok := pk.Imports[path]; ok {
						if bp := p.Pkgs[ip.PkgPath]; bp != nil {
							p.BlankImports[sp] = append(p.BlankImports[sp], bp)
						}
					}
				}
			}
		}
	})
	rt := p.Pkgs["runtime"]
	if rt == nil {
		return nil, fmt.Errorf("runtime package not loaded")
	}
	rt.Build()
	p.runtimeErrorString = rt.Type("errorString").Object().Type()
	p.Sizes = types.SizesFor("gc", "amd64")
	for _, pk := range pkgs {
		if sp := p.Pkgs[pk.PkgPath]; sp != nil {
			sp.Build()
		}
	}
	return p, nil
}
