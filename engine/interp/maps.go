package interp

import (
	"fmt"
	"go/types"
	"strings"

	"golang.org/x/tools/go/ssa"

	"verif/engine/smt"
)

// mapv is an insertion-ordered association list. Keys may contain symbolic
// terms; lookups then fork on key equality.
type mapv struct {
	keyT    types.Type
	entries []*mapEntry
	idx     map[string]*mapEntry // concrete-key index (valid while nsym==0)
	nsym    int                  // number of live entries with symbolic keys
	n       int
}

type mapEntry struct {
	k, v    value
	ck      string
	sym     bool
	deleted bool
}

func newMap(keyT types.Type) *mapv {
	return &mapv{keyT: keyT, idx: map[string]*mapEntry{}}
}

// concreteKey returns a canonical string for a key without symbolic parts.
func concreteKey(v value, sb *strings.Builder) bool {
	switch v := v.(type) {
	case *smt.Term:
		if !v.IsConst() {
			return false
		}
		fmt.Fprintf(sb, "i%d:%x;", v.Sort.W, v.C)
	case Str:
		s, ok := v.Concrete()
		if !ok {
			return false
		}
		fmt.Fprintf(sb, "s%d:%s;", len(s), s)
	case *value:
		fmt.Fprintf(sb, "p%p;", v)
	case *mapv:
		fmt.Fprintf(sb, "m%p;", v)
	case *chanv:
		fmt.Fprintf(sb, "c%p;", v)
	case upointer:
		sb.WriteString("u")
		if v.v == nil {
			sb.WriteString("nil;")
		} else if !concreteKey(v.v, sb) {
			return false
		}
	case iface:
		if v.t == nil {
			sb.WriteString("I<nil>;")
			return true
		}
		sb.WriteString("I")
		sb.WriteString(types.TypeString(v.t, nil))
		sb.WriteString(":")
		return concreteKey(v.v, sb)
	case structure:
		sb.WriteString("{")
		for _, e := range v {
			if !concreteKey(e, sb) {
				return false
			}
		}
		sb.WriteString("}")
	case array:
		sb.WriteString("[")
		for _, e := range v {
			if !concreteKey(e, sb) {
				return false
			}
		}
		sb.WriteString("]")
	case *ssa.Function:
		fmt.Fprintf(sb, "f%p;", v)
	case rtypeVal:
		fmt.Fprintf(sb, "T%s;", types.TypeString(v.t, nil))
	default:
		return false
	}
	return true
}

// find locates the entry for key k, forking on symbolic equality.
func (i *Interp) mapFind(m *mapv, k value) *mapEntry {
	if p, ok := k.(poison); ok {
		i.abort(stInconclusive, "map key is unsupported value: "+p.why)
	}
	if ifc, ok := k.(iface); ok && ifc.t != nil && !types.Comparable(ifc.t) {
		i.targetPanicStr("runtime error: hash of unhashable type " + ifc.t.String())
	}
	var sb strings.Builder
	conc := concreteKey(k, &sb)
	if conc && m.nsym == 0 {
		return m.idx[sb.String()]
	}
	ck := sb.String()
	for _, e := range m.entries {
		if e.deleted {
			continue
		}
		if conc && !e.sym {
			if e.ck == ck {
				return e
			}
			continue
		}
		eq := i.equals(m.keyT, k, e.k)
		if eq.IsConst() {
			if eq.C != 0 {
				return e
			}
			continue
		}
		if i.decide(eq, "map-key-eq") {
			return e
		}
	}
	return nil
}

func (i *Interp) mapGet(m *mapv, k value) (value, bool) {
	if m == nil {
		return nil, false
	}
	e := i.mapFind(m, k)
	if e == nil {
		return nil, false
	}
	return e.v, true
}

func (i *Interp) mapSet(m *mapv, k, v value) {
	if m == nil {
		i.targetPanicStr("assignment to entry in nil map")
	}
	e := i.mapFind(m, k)
	if e != nil {
		e.v = v
		return
	}
	var sb strings.Builder
	conc := concreteKey(k, &sb)
	ne := &mapEntry{k: k, v: v, sym: !conc}
	if conc {
		ne.ck = sb.String()
		m.idx[ne.ck] = ne
	} else {
		m.nsym++
	}
	m.entries = append(m.entries, ne)
	m.n++
}

func (i *Interp) mapDelete(m *mapv, k value) {
	if m == nil {
		return
	}
	e := i.mapFind(m, k)
	if e == nil {
		return
	}
	e.deleted = true
	m.n--
	if e.sym {
		m.nsym--
	} else {
		delete(m.idx, e.ck)
	}
	// compact occasionally
	if len(m.entries) > 32 && m.n < len(m.entries)/2 {
		var live []*mapEntry
		for _, x := range m.entries {
			if !x.deleted {
				live = append(live, x)
			}
		}
		m.entries = live
	}
}

func (m *mapv) len() int {
	if m == nil {
		return 0
	}
	return m.n
}

func (m *mapv) clear() {
	if m == nil {
		return
	}
	for _, e := range m.entries {
		e.deleted = true
	}
	m.entries = nil
	m.idx = map[string]*mapEntry{}
	m.nsym = 0
	m.n = 0
}

// live returns a snapshot of live entries in insertion order.
func (m *mapv) live() []*mapEntry {
	if m == nil {
		return nil
	}
	r := make([]*mapEntry, 0, m.n)
	for _, e := range m.entries {
		if !e.deleted {
			r = append(r, e)
		}
	}
	return r
}

// ---- iterators (Range/Next) ----

type iter interface {
	next(i *Interp) tuple
}

type mapIter struct {
	m    *mapv
	snap []*mapEntry
	pos  int
}

func (it *mapIter) next(i *Interp) tuple {
	for it.pos < len(it.snap) {
		e := it.snap[it.pos]
		it.pos++
		if e.deleted {
			continue
		}
		return tuple{i.ctx.True, e.k, e.v}
	}
	return tuple{i.ctx.False, nil, nil}
}

type strIter struct {
	s   Str
	pos int
}

func (it *strIter) next(i *Interp) tuple {
	c := i.ctx
	if it.pos >= it.s.Len() {
		return tuple{c.False, c.Const(smt.BV(64), 0), c.Const(smt.BV(32), 0)}
	}
	if cs, ok := it.s.Concrete(); ok {
		r, w := decodeRune(cs[it.pos:])
		k := it.pos
		it.pos += w
		return tuple{c.True, c.Const(smt.BV(64), uint64(k)), c.Const(smt.BV(32), uint64(uint32(r)))}
	}
	ru, w := i.decodeRuneAt(it.s, it.pos)
	k := it.pos
	it.pos += w
	return tuple{c.True, c.Const(smt.BV(64), uint64(k)), ru}
}

func decodeRune(s string) (rune, int) {
	for _, r := range s {
		w := len(string(r))
		if r == 0xFFFD {
			// could be invalid encoding (width 1) or a real U+FFFD (width 3)
			if len(s) >= 3 && s[:3] == "�" {
				return r, 3
			}
			return r, 1
		}
		return r, w
	}
	return 0, 0
}
