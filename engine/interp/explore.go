package interp

import (
	"fmt"
	"go/types"
	"os"
	"sort"
	"strings"
	"sync"
	"time"

	"golang.org/x/tools/go/ssa"

	"verif/engine/smt"
)

type Config struct {
	Solver        string
	TimeoutMs     int
	FallbackMs    int // time limit of the cvc5 second opinion on "unknown" (0: none)
	StepBudget    int64
	MaxDepth      int
	MaxAlloc      int
	Unwind        int
	ConcretizeCap int
	SchedChoice   bool
	Workers       int
	MaxPaths      int
	Trace         bool
	Validate      int // number of ok paths whose models are exported for native validation
	Seed          int64
	Params        map[string]int
	// StopAfterViolation: once a violating model has been found, exploration of
	// the entry continues for at most this long (the verdict is already decided;
	// the remaining time only collects further labels). Zero: never stop early.
	StopAfterViolation time.Duration
	// labels that do not start that clock (recorded findings: the rest of the
	// space must still be explored)
	NoStopLabels map[string]bool
}

func DefaultConfig() Config {
	return Config{Solver: "z3", TimeoutMs: 30000, FallbackMs: 90000, StepBudget: 5_000_000, MaxDepth: 400, MaxAlloc: 64,
		Unwind: 40, ConcretizeCap: 64, Workers: 8, MaxPaths: 200000, Validate: 8}
}

type Decision struct {
	Kind byte   // 'b' bool, 'v' concretized value, 'c' structural choice
	Val  uint64
	Site string // where it was taken (diagnostics of a non-deterministic replay)
}

type Violation struct {
	Entry     string            `json:"entry"`
	Label     string            `json:"label"`
	Inputs    map[string]uint64 `json:"inputs"`
	Decisions string            `json:"decisions"`
	Predicted map[string]string `json:"predicted,omitempty"`
	Kind      string            `json:"kind"` // assert | panic | deadlock | unwound
	Params    map[string]int    `json:"params,omitempty"`
	Detail    string            `json:"detail,omitempty"`
	Model     smt.Model         `json:"-"`
	WhenTerm  *smt.Term         `json:"-"`
}

type obsRec struct {
	label string
	v     value
}

type inputRec struct {
	name string
	t    *smt.Term
	conc uint64
	isC  bool
}

type siteKey struct {
	frame int
	instr ssa.Instruction
}

type pathState struct {
	prefix  []Decision
	pos     int
	taken   []Decision
	pc      []*smt.Term
	model   smt.Model
	newWork [][]Decision

	obligations int
	discharged  int
	concreteOK  int
	unknownObl  []string
	violations  []*Violation
	reached     map[string]bool
	inputs      []inputRec
	obs         []obsRec
	unwind      map[siteKey]int
	boundsHit   map[string]int
	unknownFeas int
	varSeq      map[string]int
	entry       string
	sawViolation bool
	forkSites   map[string]int
	vars        []*smt.Term
}

type Worker struct {
	id     int
	ctx    *smt.Ctx
	solver *smt.Solver
	in     *Interp
}

func (i *Interp) evalBool(t *smt.Term) bool {
	return t.Eval(i.ex.model, map[*smt.Term]uint64{}) != 0
}

func (i *Interp) addPC(t *smt.Term) {
	ex := i.ex
	ex.pc = append(ex.pc, t)
	if ex.model != nil && !i.evalBool(t) {
		ex.model = nil
	}
}

func (i *Interp) check(extra *smt.Term, wantModel bool) (smt.Result, smt.Model) {
	r, m := i.solver().Check(i.ex.pc, extra, wantModel, i.ex.vars)
	if r == smt.Unknown {
		i.ex.unknownFeas++
	}
	return r, m
}

func (i *Interp) solver() *smt.Solver { return i.w.solver }

// decide resolves a symbolic boolean: follows the prefix or forks.
func (i *Interp) decide(cond *smt.Term, site string) bool {
	if cond.IsConst() {
		return cond.C != 0
	}
	c := i.ctx
	ex := i.ex
	if ex.pos < len(ex.prefix) {
		d := ex.prefix[ex.pos]
		ex.pos++
		if d.Kind != 'b' {
			panic(fmt.Sprintf("decision kind mismatch at %s: have %c (%s) want b (non-deterministic replay)", site, d.Kind, d.Site))
		}
		ex.taken = append(ex.taken, d)
		if d.Val != 0 {
			i.addPC(cond)
			return true
		}
		i.addPC(c.Not(cond))
		return false
	}
	ncond := c.Not(cond)
	var tOK, fOK bool
	var tM, fM smt.Model
	if ex.model != nil {
		if i.evalBool(cond) {
			tOK, tM = true, ex.model
			r, m := i.check(ncond, false)
			fOK, fM = r != smt.Unsat, m
		} else {
			fOK, fM = true, ex.model
			r, m := i.check(cond, false)
			tOK, tM = r != smt.Unsat, m
		}
	} else {
		r, m := i.check(cond, true)
		tOK, tM = r != smt.Unsat, m
		if !tOK {
			fOK = true
		} else {
			r, m = i.check(ncond, false)
			fOK, fM = r != smt.Unsat, m
		}
	}
	if !tOK && !fOK {
		i.abort(stInfeasible, "both branch sides infeasible at "+site)
	}
	take := tOK
	if tOK && fOK {
		// prefer the side witnessed by the current model (keeps it valid)
		if ex.model != nil && !i.evalBool(cond) {
			take = false
		}
		other := uint64(0)
		if !take {
			other = 1
		}
		nw := append(append([]Decision{}, ex.taken...), Decision{'b', other, site})
		ex.newWork = append(ex.newWork, nw)
		ex.forkSites["b:"+site]++
	}
	if take {
		ex.taken = append(ex.taken, Decision{'b', 1, site})
		ex.pc = append(ex.pc, cond)
		ex.model = tM
		return true
	}
	ex.taken = append(ex.taken, Decision{'b', 0, site})
	ex.pc = append(ex.pc, ncond)
	ex.model = fM
	return false
}

func (i *Interp) decideAt(cond *smt.Term, fr *frame, instr ssa.Instruction) bool {
	ex := i.ex
	k := siteKey{fr.serial, instr}
	ex.unwind[k]++
	if ex.unwind[k] > i.cfg.Unwind {
		i.abort(stUnwound, fmt.Sprintf("symbolic loop unwound %d times in %s", i.cfg.Unwind, fr.fn))
	}
	return i.decide(cond, fr.fn.Name())
}

// concretize forks over the feasible values of t (bounded by ConcretizeCap).
func (i *Interp) concretize(t *smt.Term, site string) *smt.Term {
	if t.IsConst() {
		return t
	}
	c := i.ctx
	ex := i.ex
	if ex.pos < len(ex.prefix) {
		d := ex.prefix[ex.pos]
		ex.pos++
		if d.Kind != 'v' {
			panic(fmt.Sprintf("decision kind mismatch at %s: have %c (%s) want v", site, d.Kind, d.Site))
		}
		ex.taken = append(ex.taken, d)
		cv := c.Const(t.Sort, d.Val)
		i.addPC(c.Eq(t, cv))
		return cv
	}
	var vals []uint64
	block := c.True
	var firstModel smt.Model
	for {
		var m smt.Model
		if len(vals) == 0 && ex.model != nil {
			m = ex.model
		} else {
			r, mm := i.check(block, true)
			if r == smt.Unsat {
				break
			}
			if r == smt.Unknown {
				i.abort(stInconclusive, "solver unknown while enumerating values at "+site)
			}
			m = mm
		}
		v := t.Eval(m, map[*smt.Term]uint64{})
		if len(vals) == 0 {
			firstModel = m
		}
		vals = append(vals, v)
		block = c.And(block, c.Not(c.Eq(t, c.Const(t.Sort, v))))
		if len(vals) > i.cfg.ConcretizeCap {
			i.abort(stInconclusive, fmt.Sprintf("more than %d feasible values at %s (%s)", i.cfg.ConcretizeCap, site, t))
		}
	}
	if len(vals) == 0 {
		i.abort(stInfeasible, "no feasible value at "+site)
	}
	for _, v := range vals[1:] {
		nw := append(append([]Decision{}, ex.taken...), Decision{'v', v, site})
		ex.newWork = append(ex.newWork, nw)
		ex.forkSites["v:"+site]++
	}
	ex.taken = append(ex.taken, Decision{'v', vals[0], site})
	cv := c.Const(t.Sort, vals[0])
	ex.pc = append(ex.pc, c.Eq(t, cv))
	ex.model = firstModel
	return cv
}

// concretizeOne fixes t to one feasible value (no fork over the others).
func (i *Interp) concretizeOne(t *smt.Term, site string) *smt.Term {
	if t.IsConst() {
		return t
	}
	c := i.ctx
	ex := i.ex
	if ex.pos < len(ex.prefix) {
		d := ex.prefix[ex.pos]
		ex.pos++
		if d.Kind != 'o' {
			panic(fmt.Sprintf("decision kind mismatch at %s: have %c (%s) want o", site, d.Kind, d.Site))
		}
		ex.taken = append(ex.taken, d)
		cv := c.Const(t.Sort, d.Val)
		i.addPC(c.Eq(t, cv))
		return cv
	}
	m := i.ensureModel()
	if m == nil {
		i.abort(stInconclusive, "no model to pick a representative value at "+site)
	}
	v := t.Eval(m, map[*smt.Term]uint64{})
	ex.taken = append(ex.taken, Decision{'o', v, site})
	cv := c.Const(t.Sort, v)
	ex.pc = append(ex.pc, c.Eq(t, cv))
	return cv
}

// choiceN is a structural decision among k alternatives (no solver involved).
func (i *Interp) choiceN(k int, site string) int {
	if k <= 1 {
		return 0
	}
	ex := i.ex
	if ex.pos < len(ex.prefix) {
		d := ex.prefix[ex.pos]
		ex.pos++
		if d.Kind != 'c' {
			panic(fmt.Sprintf("decision kind mismatch at %s: have %c (%s) want c; prefix=%s", site, d.Kind, d.Site, sitesOf(ex.prefix)))
		}
		ex.taken = append(ex.taken, d)
		return int(d.Val)
	}
	for v := 1; v < k; v++ {
		nw := append(append([]Decision{}, ex.taken...), Decision{'c', uint64(v), site})
		ex.newWork = append(ex.newWork, nw)
	}
	ex.taken = append(ex.taken, Decision{'c', 0, site})
	return 0
}

func (i *Interp) assume(cond *smt.Term) {
	if cond.IsConst() {
		if cond.C == 0 {
			i.abort(stInfeasible, "assume(false)")
		}
		return
	}
	ex := i.ex
	if ex.model != nil && i.evalBool(cond) {
		ex.pc = append(ex.pc, cond)
		return
	}
	r, m := i.check(cond, true)
	if r == smt.Unsat {
		i.abort(stInfeasible, "assumption infeasible")
	}
	ex.pc = append(ex.pc, cond)
	ex.model = m
}

// boundAssume applies a stated bound and records whether it cut anything.
func (i *Interp) boundAssume(cond *smt.Term, label string) {
	if cond.IsConst() {
		if cond.C == 0 {
			i.ex.boundsHit[label]++
			i.abort(stInfeasible, "outside stated bound "+label)
		}
		return
	}
	if r, _ := i.check(i.ctx.Not(cond), false); r != smt.Unsat {
		i.ex.boundsHit[label]++
	}
	i.assume(cond)
}

func (i *Interp) ensureModel() smt.Model {
	ex := i.ex
	if ex.model == nil {
		r, m := i.check(nil, true)
		if r == smt.Sat {
			ex.model = m
		}
	}
	return ex.model
}

func (i *Interp) mkViolation(label, kind, detail string, m smt.Model) *Violation {
	ex := i.ex
	v := &Violation{Entry: ex.entry, Label: label, Kind: kind, Detail: detail, Inputs: map[string]uint64{}, Predicted: map[string]string{}, Model: m, Params: i.cfg.Params}
	memo := map[*smt.Term]uint64{}
	for _, in := range ex.inputs {
		if in.isC {
			v.Inputs[in.name] = in.conc
		} else if m != nil {
			v.Inputs[in.name] = in.t.Eval(m, memo)
		}
	}
	var sb strings.Builder
	for _, d := range ex.taken {
		fmt.Fprintf(&sb, "%c%d ", d.Kind, d.Val)
	}
	v.Decisions = strings.TrimSpace(sb.String())
	for _, o := range ex.obs {
		v.Predicted[o.label] = i.renderObs(o.v, m, memo)
	}
	return v
}

func (i *Interp) assert(cond *smt.Term, label string) {
	ex := i.ex
	ex.obligations++
	if cond.IsConst() {
		if cond.C != 0 {
			ex.discharged++
			ex.concreteOK++
			return
		}
		m := i.ensureModel()
		ex.violations = append(ex.violations, i.mkViolation(label, "assert", "condition is false on this path", m))
		ex.sawViolation = true
		i.abort(stInfeasible, "assertion false (concrete)")
	}
	r, m := i.check(i.ctx.Not(cond), true)
	switch r {
	case smt.Unsat:
		ex.discharged++
		// cond is implied: no need to add
		return
	case smt.Unknown:
		ex.unknownObl = append(ex.unknownObl, label)
	case smt.Sat:
		ex.violations = append(ex.violations, i.mkViolation(label, "assert", "", m))
		ex.sawViolation = true
	}
	i.assume(cond)
}

func (i *Interp) renderObs(v value, m smt.Model, memo map[*smt.Term]uint64) string {
	switch v := v.(type) {
	case *smt.Term:
		if m == nil && !v.IsConst() {
			return "?"
		}
		x := v.Eval(m, memo)
		if v.Sort.K == smt.KBool {
			if x != 0 {
				return "true"
			}
			return "false"
		}
		return fmt.Sprintf("%d", x)
	case Str:
		if v.opaque {
			return "?"
		}
		b := make([]byte, v.Len())
		for k := range b {
			t := v.at(i.ctx, k)
			if m == nil && !t.IsConst() {
				return "?"
			}
			b[k] = byte(t.Eval(m, memo))
		}
		return fmt.Sprintf("%x", b)
	case []value:
		var sb strings.Builder
		allBytes := true
		for _, e := range v {
			if t, ok := e.(*smt.Term); !ok || t.Sort != bv8 {
				allBytes = false
			}
		}
		if allBytes {
			b := make([]byte, len(v))
			for k, e := range v {
				t := e.(*smt.Term)
				if m == nil && !t.IsConst() {
					return "?"
				}
				b[k] = byte(t.Eval(m, memo))
			}
			return fmt.Sprintf("%x", b)
		}
		sb.WriteString("[")
		for k, e := range v {
			if k > 0 {
				sb.WriteString(" ")
			}
			sb.WriteString(i.renderObs(e, m, memo))
		}
		sb.WriteString("]")
		return sb.String()
	case iface:
		if v.t == nil {
			return "nil"
		}
		return i.renderObs(v.v, m, memo)
	}
	return "?"
}

// ---- results ----

type PathResult struct {
	Status      status
	Why         string
	Decisions   int
	Obligations int
	Discharged  int
	ConcreteOK  int
	UnknownObl  []string
	Violations  []*Violation
	Reached     []string
	BoundsHit   map[string]int
	UnknownFeas int
	Steps       int64
	Sample      map[string]interface{}
	ValModel    *Violation // inputs of an ok path for translator validation
	ForkSites   map[string]int
}

type EntryReport struct {
	Entry        string
	Paths        int
	ByStatus     map[string]int
	Transitions  int
	Obligations  int
	Discharged   int
	ConcreteOK   int
	UnknownObl   []string
	Violations   []*Violation
	Reached      map[string]int
	BoundsHit    map[string]int
	UnknownFeas  int
	Inconclusive []string
	Unwound      []string
	Panics       []string
	Deadlocks    []string
	Samples      []map[string]interface{}
	ValModels    []*Violation
	Funcs        map[string]int
	SolverQ      int
	FallbackQ    int // queries z3 left unknown that were put to cvc5
	FallbackDec  int // ... and decided by it
	SolverTime   time.Duration
	MaxQuery     time.Duration
	SolverErrors int
	Truncated    bool
	StoppedEarly bool
	Wall         time.Duration
	Steps        int64
	Terms        int
	ForkSites    map[string]int
}

type Explorer struct {
	P     *Program
	Cfg   Config
	mu    sync.Mutex
	cond  *sync.Cond
	work  [][]Decision
	active int
	rep   *EntryReport
	stop  bool
	firstViolation time.Time
}

func NewWorker(p *Program, cfg *Config, id int) (*Worker, error) {
	ctx := smt.NewCtx()
	s, err := smt.NewSolver(ctx, cfg.Solver, cfg.TimeoutMs)
	if err != nil {
		return nil, err
	}
	s.FallbackMs = cfg.FallbackMs
	if os.Getenv("GOSYM_SMTLOG") != "" && id == 0 {
		f, _ := os.Create(os.Getenv("GOSYM_SMTLOG"))
		s.Log = f
	}
	w := &Worker{id: id, ctx: ctx, solver: s}
	w.in = &Interp{P: p, ctx: ctx, cfg: cfg, w: w, funcsSeen: map[string]int{}, intrCache: map[*ssa.Function]intrinsic{},
		killAck: make(chan struct{}, 64), trace: cfg.Trace, typeCache: map[string]types.Type{}}
	return w, nil
}

func (w *Worker) Close() { w.solver.Close() }

// RunPath executes one path with the given decision prefix.
func (w *Worker) RunPath(entry *ssa.Function, prefix []Decision) *PathResult {
	i := w.in
	i.reset()
	ex := &pathState{prefix: prefix, reached: map[string]bool{}, unwind: map[siteKey]int{}, boundsHit: map[string]int{},
		varSeq: map[string]int{}, entry: entry.Name(), forkSites: map[string]int{}}
	i.ex = ex
	st, why := i.runEntry(entry)
	if st == stInfeasible && ex.sawViolation {
		st = stOK // path ended at a failed assertion
	}
	pr := &PathResult{Status: st, Why: why, Decisions: len(ex.taken), Obligations: ex.obligations, Discharged: ex.discharged,
		ConcreteOK: ex.concreteOK, UnknownObl: ex.unknownObl, Violations: ex.violations, BoundsHit: ex.boundsHit,
		UnknownFeas: ex.unknownFeas, Steps: i.steps, ForkSites: ex.forkSites}
	for l := range ex.reached {
		pr.Reached = append(pr.Reached, l)
	}
	sort.Strings(pr.Reached)
	// implicit obligations: no escaped panic / deadlock / unwinding are reported by status;
	// the harness decides (via config) which of these are violations.
	if st == stPanic || st == stDeadlock {
		if ex.pos >= len(ex.prefix) {
			m := i.ensureModelSafe()
			kind := "panic"
			if st == stDeadlock {
				kind = "deadlock"
			}
			pr.Violations = append(pr.Violations, i.mkViolation(entry.Name()+"/no-"+kind, kind, why, m))
		}
	}
	if st == stOK || st == stPanic {
		m := i.ensureModelSafe()
		s := map[string]interface{}{"status": st.String(), "decisions": len(ex.taken), "obligations": ex.obligations, "reached": pr.Reached}
		if m != nil {
			v := i.mkViolation("", "sample", "", m)
			s["inputs"] = v.Inputs
			if st == stOK && len(ex.violations) == 0 {
				pr.ValModel = v
			}
		}
		pr.Sample = s
	}
	return pr
}

func (i *Interp) ensureModelSafe() (m smt.Model) {
	defer func() {
		if r := recover(); r != nil {
			m = nil
		}
	}()
	return i.ensureModel()
}

// Explore runs all paths of entry.
func (e *Explorer) Explore(entry *ssa.Function) *EntryReport {
	start := time.Now()
	rep := &EntryReport{Entry: entry.Name(), ByStatus: map[string]int{}, Reached: map[string]int{}, BoundsHit: map[string]int{}, Funcs: map[string]int{}, ForkSites: map[string]int{}}
	e.rep = rep
	e.work = [][]Decision{nil}
	e.active = 0
	e.stop = false
	e.firstViolation = time.Time{}
	e.cond = sync.NewCond(&e.mu)
	nw := e.Cfg.Workers
	if nw < 1 {
		nw = 1
	}
	var wg sync.WaitGroup
	for k := 0; k < nw; k++ {
		wg.Add(1)
		go func(id int) {
			defer wg.Done()
			var w *Worker
			defer func() {
				if w != nil {
					e.mu.Lock()
					for f, n := range w.in.funcsSeen {
						rep.Funcs[f] += n
					}
					rep.SolverQ += w.solver.Queries
					rep.FallbackQ += w.solver.FallbackQueries
					rep.FallbackDec += w.solver.FallbackDecided
					rep.SolverTime += w.solver.Time
					if w.solver.MaxQuery > rep.MaxQuery {
						rep.MaxQuery = w.solver.MaxQuery
					}
					rep.SolverErrors += w.solver.Errors
					rep.Terms += w.ctx.NumTerms()
					e.mu.Unlock()
					w.Close()
				}
			}()
			for {
				e.mu.Lock()
				for len(e.work) == 0 && e.active > 0 && !e.stop {
					e.cond.Wait()
				}
				if e.stop || (len(e.work) == 0 && e.active == 0) {
					e.mu.Unlock()
					e.cond.Broadcast()
					return
				}
				prefix := e.work[len(e.work)-1]
				e.work = e.work[:len(e.work)-1]
				e.active++
				e.mu.Unlock()
				if w == nil {
					var err error
					cfg := e.Cfg
					w, err = NewWorker(e.P, &cfg, id)
					if err != nil {
						panic(err)
					}
				}
				t0 := time.Now()
				q0, st0 := w.solver.Queries, w.solver.Time
				pr := w.RunPath(entry, prefix)
				if d := time.Since(t0); d > 5*time.Second && os.Getenv("GOSYM_SLOW") != "" {
					fmt.Fprintf(os.Stderr, "SLOW path %.1fs (solver %.1fs, %d queries, %d steps) status=%s decisions=%v inputs=%v\n", d.Seconds(), (w.solver.Time - st0).Seconds(), w.solver.Queries-q0, pr.Steps, pr.Status, w.in.ex.taken, pr.Sample)
				}
				e.mu.Lock()
				e.active--
				e.merge(pr, w.in.ex.newWork)
				e.mu.Unlock()
				e.cond.Broadcast()
			}
		}(k)
	}
	doneCh := make(chan struct{})
	go func() {
		tk := time.NewTicker(20 * time.Second)
		defer tk.Stop()
		for {
			select {
			case <-doneCh:
				return
			case <-tk.C:
				e.mu.Lock()
				fmt.Fprintf(os.Stderr, "  .. %s: %d paths %v, queue %d, active %d, %.0fs forks=%v\n", rep.Entry, rep.Paths, rep.ByStatus, len(e.work), e.active, time.Since(start).Seconds(), rep.ForkSites)
				e.mu.Unlock()
			}
		}
	}()
	wg.Wait()
	close(doneCh)
	rep.Wall = time.Since(start)
	return rep
}

func (e *Explorer) merge(pr *PathResult, newWork [][]Decision) {
	rep := e.rep
	if e.firstViolation.IsZero() {
		for _, v := range pr.Violations {
			if !e.Cfg.NoStopLabels[v.Label] {
				e.firstViolation = time.Now()
				break
			}
		}
	}
	if e.Cfg.StopAfterViolation > 0 && !e.firstViolation.IsZero() && time.Since(e.firstViolation) > e.Cfg.StopAfterViolation && !e.stop {
		rep.Truncated = true
		rep.StoppedEarly = true
		e.stop = true
		e.work = nil
	}
	rep.Paths++
	rep.ByStatus[pr.Status.String()]++
	rep.Transitions += pr.Decisions
	rep.Obligations += pr.Obligations
	rep.Discharged += pr.Discharged
	rep.ConcreteOK += pr.ConcreteOK
	rep.UnknownObl = append(rep.UnknownObl, pr.UnknownObl...)
	rep.Violations = append(rep.Violations, pr.Violations...)
	rep.UnknownFeas += pr.UnknownFeas
	rep.Steps += pr.Steps
	for _, l := range pr.Reached {
		rep.Reached[l]++
	}
	for l, n := range pr.BoundsHit {
		rep.BoundsHit[l] += n
	}
	for l, n := range pr.ForkSites {
		rep.ForkSites[l] += n
	}
	switch pr.Status {
	case stInconclusive:
		if len(rep.Inconclusive) < 50 {
			rep.Inconclusive = append(rep.Inconclusive, pr.Why)
		}
	case stUnwound:
		if len(rep.Unwound) < 50 {
			rep.Unwound = append(rep.Unwound, pr.Why)
		}
	case stPanic:
		if len(rep.Panics) < 50 {
			rep.Panics = append(rep.Panics, pr.Why)
		}
	case stDeadlock:
		if len(rep.Deadlocks) < 50 {
			rep.Deadlocks = append(rep.Deadlocks, pr.Why)
		}
	}
	if pr.Sample != nil && len(rep.Samples) < 6 {
		rep.Samples = append(rep.Samples, pr.Sample)
	}
	if pr.ValModel != nil && len(rep.ValModels) < e.Cfg.Validate {
		rep.ValModels = append(rep.ValModels, pr.ValModel)
	}
	e.work = append(e.work, newWork...)
	if rep.Paths >= e.Cfg.MaxPaths && len(e.work) > 0 {
		rep.Truncated = true
		e.stop = true
		e.work = nil
	}
}

func sitesOf(ds []Decision) string {
	var sb strings.Builder
	for _, d := range ds {
		fmt.Fprintf(&sb, "%c%d@%s ", d.Kind, d.Val, d.Site)
	}
	return sb.String()
}
