package interp

import (
	"fmt"
	"go/types"
	"reflect"
	"strings"

	"golang.org/x/tools/go/ssa"

	"verif/engine/smt"
)

// A subset of package reflect over go/types. reflect.Type values are
// interface values whose dynamic type is *reflect.rtype and whose payload is
// an rtypeVal; reflect.Value is its real struct with the ptr field holding a
// boxed (type, value, address) triple.

type rtypeVal struct{ t types.Type }

type rvBox struct {
	t    types.Type
	v    value
	addr *value // non-nil: addressable / settable
	ro   bool   // obtained through an unexported struct field: no Interface(), no Set
	// method value
	recvT types.Type
	fn    *ssa.Function
}

func (i *Interp) rtypePtrType() types.Type {
	if t, ok := i.typeCache["*reflect.rtype"]; ok {
		return t
	}
	n := i.lookupType("reflect", "rtype")
	if n == nil {
		i.abort(stInconclusive, "package reflect is not loaded")
	}
	t := types.NewPointer(n)
	i.typeCache["*reflect.rtype"] = t
	return t
}

func (i *Interp) mkRType(t types.Type) value {
	if t == nil {
		return iface{}
	}
	return iface{t: i.rtypePtrType(), v: rtypeVal{t}}
}

func (i *Interp) rtypeOf(v value) types.Type {
	switch x := v.(type) {
	case iface:
		if x.t == nil {
			i.targetPanicStr("runtime error: invalid memory address or nil pointer dereference")
		}
		return i.rtypeOf(x.v)
	case rtypeVal:
		return x.t
	}
	i.abort(stInconclusive, fmt.Sprintf("reflect.Type value of unexpected shape %T", v))
	return nil
}

func (i *Interp) mkRV(b *rvBox) value {
	vt := i.lookupType("reflect", "Value")
	st := i.zero(vt).(structure)
	if b != nil {
		st[1] = upointer{b}
		st[2] = i.ctx.Const(st[2].(*smt.Term).Sort, 1)
	}
	return st
}

func (i *Interp) rvOf(v value) *rvBox {
	st, ok := v.(structure)
	if !ok {
		i.abort(stInconclusive, fmt.Sprintf("reflect.Value of unexpected shape %T", v))
	}
	up, _ := st[1].(upointer)
	b, _ := up.v.(*rvBox)
	return b
}

func (i *Interp) rvMust(v value, what string) *rvBox {
	b := i.rvOf(v)
	if b == nil {
		panic(targetPanic{i.newError(Str{s: "reflect: call of " + what + " on zero Value"}, nil)})
	}
	return b
}

func kindOf(t types.Type) reflect.Kind {
	switch u := t.Underlying().(type) {
	case *types.Basic:
		switch u.Kind() {
		case types.Bool, types.UntypedBool:
			return reflect.Bool
		case types.Int, types.UntypedInt:
			return reflect.Int
		case types.Int8:
			return reflect.Int8
		case types.Int16:
			return reflect.Int16
		case types.Int32, types.UntypedRune:
			return reflect.Int32
		case types.Int64:
			return reflect.Int64
		case types.Uint:
			return reflect.Uint
		case types.Uint8:
			return reflect.Uint8
		case types.Uint16:
			return reflect.Uint16
		case types.Uint32:
			return reflect.Uint32
		case types.Uint64:
			return reflect.Uint64
		case types.Uintptr:
			return reflect.Uintptr
		case types.Float32:
			return reflect.Float32
		case types.Float64, types.UntypedFloat:
			return reflect.Float64
		case types.Complex64:
			return reflect.Complex64
		case types.Complex128:
			return reflect.Complex128
		case types.String, types.UntypedString:
			return reflect.String
		case types.UnsafePointer:
			return reflect.UnsafePointer
		}
	case *types.Array:
		return reflect.Array
	case *types.Chan:
		return reflect.Chan
	case *types.Signature:
		return reflect.Func
	case *types.Interface:
		return reflect.Interface
	case *types.Map:
		return reflect.Map
	case *types.Pointer:
		return reflect.Ptr
	case *types.Slice:
		return reflect.Slice
	case *types.Struct:
		return reflect.Struct
	}
	return reflect.Invalid
}

func (i *Interp) mkUint(v uint64) *smt.Term { return i.ctx.Const(i64s, v) }

func typeName(t types.Type) string {
	switch x := t.(type) {
	case *types.Named:
		return x.Obj().Name()
	case *types.Basic:
		return x.Name()
	}
	return ""
}

func typeStringReflect(t types.Type) string {
	return types.TypeString(t, func(p *types.Package) string { return p.Name() })
}

func (i *Interp) structFieldValue(st *types.Struct, k int) value {
	sf := i.zero(i.lookupType("reflect", "StructField")).(structure)
	f := st.Field(k)
	sf[0] = Str{s: f.Name()}
	if !f.Exported() && f.Pkg() != nil {
		sf[1] = Str{s: f.Pkg().Path()}
	}
	sf[2] = i.mkRType(f.Type())
	sf[3] = Str{s: st.Tag(k)}
	sf[5] = []value{i.mkInt(int64(k))}
	sf[6] = i.ctx.BoolC(f.Embedded())
	return sf
}

// exported methods of t in sorted order (as reflect numbers them)
func (i *Interp) exportedMethods(t types.Type) []*types.Selection {
	ms := i.P.Prog.MethodSets.MethodSet(t)
	var out []*types.Selection
	for k := 0; k < ms.Len(); k++ {
		if ms.At(k).Obj().Exported() {
			out = append(out, ms.At(k))
		}
	}
	return out
}

func (i *Interp) methodValue(b *rvBox, sel *types.Selection) value {
	fn := i.P.Prog.MethodValue(sel)
	sig := sel.Type().(*types.Signature)
	return i.mkRV(&rvBox{t: sig, v: &boundMethod{recv: b.v, fn: fn}, recvT: b.t, fn: fn})
}

type boundMethod struct {
	recv value
	fn   *ssa.Function
}

func registerReflect() {
	in := intrinsics
	in["reflect.TypeOf"] = func(i *Interp, fr *frame, fn *ssa.Function, args []value) value {
		return i.mkRType(args[0].(iface).t)
	}
	in["reflect.ValueOf"] = func(i *Interp, fr *frame, fn *ssa.Function, args []value) value {
		x := args[0].(iface)
		if x.t == nil {
			return i.mkRV(nil)
		}
		return i.mkRV(&rvBox{t: x.t, v: x.v})
	}
	in["reflect.Indirect"] = func(i *Interp, fr *frame, fn *ssa.Function, args []value) value {
		b := i.rvOf(args[0])
		if b == nil {
			return args[0]
		}
		if pt, ok := b.t.Underlying().(*types.Pointer); ok {
			p, _ := b.v.(*value)
			if p == nil {
				return i.mkRV(nil)
			}
			return i.mkRV(&rvBox{t: pt.Elem(), v: copyVal(*p), addr: p})
		}
		return args[0]
	}
	in["reflect.Zero"] = func(i *Interp, fr *frame, fn *ssa.Function, args []value) value {
		t := i.rtypeOf(args[0])
		return i.mkRV(&rvBox{t: t, v: i.zero(t)})
	}
	in["reflect.New"] = func(i *Interp, fr *frame, fn *ssa.Function, args []value) value {
		t := i.rtypeOf(args[0])
		var cell value = i.zero(t)
		return i.mkRV(&rvBox{t: types.NewPointer(t), v: &cell})
	}
	in["reflect.DeepEqual"] = func(i *Interp, fr *frame, fn *ssa.Function, args []value) value {
		return i.ctx.BoolC(i.deepEqual(args[0], args[1], 0))
	}
	in["reflect.PtrTo"] = func(i *Interp, fr *frame, fn *ssa.Function, args []value) value {
		return i.mkRType(types.NewPointer(i.rtypeOf(args[0])))
	}
	in["reflect.PointerTo"] = in["reflect.PtrTo"]

	// ---- Type methods ----
	tm := func(name string, f func(i *Interp, t types.Type, args []value) value) {
		in["(*reflect.rtype)."+name] = func(i *Interp, fr *frame, fn *ssa.Function, args []value) value {
			return f(i, i.rtypeOf(args[0]), args[1:])
		}
	}
	tm("Kind", func(i *Interp, t types.Type, a []value) value { return i.mkUint(uint64(kindOf(t))) })
	tm("String", func(i *Interp, t types.Type, a []value) value { return Str{s: typeStringReflect(t)} })
	tm("Name", func(i *Interp, t types.Type, a []value) value { return Str{s: typeName(t)} })
	tm("PkgPath", func(i *Interp, t types.Type, a []value) value {
		if n, ok := t.(*types.Named); ok && n.Obj().Pkg() != nil {
			return Str{s: n.Obj().Pkg().Path()}
		}
		return Str{}
	})
	tm("Elem", func(i *Interp, t types.Type, a []value) value {
		switch u := t.Underlying().(type) {
		case *types.Pointer:
			return i.mkRType(u.Elem())
		case *types.Slice:
			return i.mkRType(u.Elem())
		case *types.Array:
			return i.mkRType(u.Elem())
		case *types.Map:
			return i.mkRType(u.Elem())
		case *types.Chan:
			return i.mkRType(u.Elem())
		}
		panic(targetPanic{i.newError(Str{s: "reflect: Elem of invalid type " + t.String()}, nil)})
	})
	tm("Key", func(i *Interp, t types.Type, a []value) value {
		return i.mkRType(t.Underlying().(*types.Map).Key())
	})
	tm("NumField", func(i *Interp, t types.Type, a []value) value {
		st, ok := t.Underlying().(*types.Struct)
		if !ok {
			panic(targetPanic{i.newError(Str{s: "reflect: NumField of non-struct type " + t.String()}, nil)})
		}
		return i.mkInt(int64(st.NumFields()))
	})
	tm("Field", func(i *Interp, t types.Type, a []value) value {
		st, ok := t.Underlying().(*types.Struct)
		if !ok {
			panic(targetPanic{i.newError(Str{s: "reflect: Field of non-struct type " + t.String()}, nil)})
		}
		k := int(i.asInt(a[0], true, "reflect.Type.Field"))
		if k < 0 || k >= st.NumFields() {
			panic(targetPanic{i.newError(Str{s: "reflect: Field index out of bounds"}, nil)})
		}
		return i.structFieldValue(st, k)
	})
	tm("FieldByName", func(i *Interp, t types.Type, a []value) value {
		st, ok := t.Underlying().(*types.Struct)
		name := i.concreteStr(a[0], "reflect.Type.FieldByName")
		if ok {
			for k := 0; k < st.NumFields(); k++ {
				if st.Field(k).Name() == name {
					return tuple{i.structFieldValue(st, k), i.ctx.True}
				}
			}
		}
		return tuple{i.zero(i.lookupType("reflect", "StructField")), i.ctx.False}
	})
	tm("NumMethod", func(i *Interp, t types.Type, a []value) value {
		return i.mkInt(int64(len(i.exportedMethods(t))))
	})
	methodStruct := func(i *Interp, t types.Type, sel *types.Selection, idx int) value {
		ms := i.zero(i.lookupType("reflect", "Method")).(structure)
		fn := i.P.Prog.MethodValue(sel)
		sig := sel.Type().(*types.Signature)
		var params []*types.Var
		params = append(params, types.NewVar(0, nil, "recv", t))
		for k := 0; k < sig.Params().Len(); k++ {
			params = append(params, sig.Params().At(k))
		}
		full := types.NewSignatureType(nil, nil, nil, types.NewTuple(params...), sig.Results(), sig.Variadic())
		ms[0] = Str{s: sel.Obj().Name()}
		ms[2] = i.mkRType(full)
		ms[3] = i.mkRV(&rvBox{t: full, v: fn})
		ms[4] = i.mkInt(int64(idx))
		return ms
	}
	tm("MethodByName", func(i *Interp, t types.Type, a []value) value {
		name := i.concreteStr(a[0], "reflect.Type.MethodByName")
		for k, sel := range i.exportedMethods(t) {
			if sel.Obj().Name() == name {
				return tuple{methodStruct(i, t, sel, k), i.ctx.True}
			}
		}
		return tuple{i.zero(i.lookupType("reflect", "Method")), i.ctx.False}
	})
	tm("Method", func(i *Interp, t types.Type, a []value) value {
		ms := i.exportedMethods(t)
		k := int(i.asInt(a[0], true, "reflect.Type.Method"))
		if k < 0 || k >= len(ms) {
			panic(targetPanic{i.newError(Str{s: "reflect: Method index out of range"}, nil)})
		}
		return methodStruct(i, t, ms[k], k)
	})
	tm("NumIn", func(i *Interp, t types.Type, a []value) value {
		return i.mkInt(int64(t.Underlying().(*types.Signature).Params().Len()))
	})
	tm("NumOut", func(i *Interp, t types.Type, a []value) value {
		return i.mkInt(int64(t.Underlying().(*types.Signature).Results().Len()))
	})
	tm("In", func(i *Interp, t types.Type, a []value) value {
		return i.mkRType(t.Underlying().(*types.Signature).Params().At(int(i.asInt(a[0], true, "In"))).Type())
	})
	tm("Out", func(i *Interp, t types.Type, a []value) value {
		return i.mkRType(t.Underlying().(*types.Signature).Results().At(int(i.asInt(a[0], true, "Out"))).Type())
	})
	tm("Len", func(i *Interp, t types.Type, a []value) value {
		return i.mkInt(t.Underlying().(*types.Array).Len())
	})
	tm("Comparable", func(i *Interp, t types.Type, a []value) value { return i.ctx.BoolC(types.Comparable(t)) })
	tm("Implements", func(i *Interp, t types.Type, a []value) value {
		it, ok := i.rtypeOf(a[0]).Underlying().(*types.Interface)
		if !ok {
			panic(targetPanic{i.newError(Str{s: "reflect: non-interface type passed to Type.Implements"}, nil)})
		}
		return i.ctx.BoolC(types.Implements(t, it))
	})
	tm("AssignableTo", func(i *Interp, t types.Type, a []value) value {
		return i.ctx.BoolC(types.AssignableTo(t, i.rtypeOf(a[0])))
	})
	tm("ConvertibleTo", func(i *Interp, t types.Type, a []value) value {
		return i.ctx.BoolC(types.ConvertibleTo(t, i.rtypeOf(a[0])))
	})
	tm("Bits", func(i *Interp, t types.Type, a []value) value {
		s, _ := sortOf(t)
		return i.mkInt(int64(s.W))
	})

	// ---- Value methods ----
	vm := func(name string, f func(i *Interp, fr *frame, b *rvBox, args []value) value) {
		in["(reflect.Value)."+name] = func(i *Interp, fr *frame, fn *ssa.Function, args []value) value {
			return f(i, fr, i.rvOf(args[0]), args[1:])
		}
	}
	vm("IsValid", func(i *Interp, fr *frame, b *rvBox, a []value) value { return i.ctx.BoolC(b != nil) })
	vm("Kind", func(i *Interp, fr *frame, b *rvBox, a []value) value {
		if b == nil {
			return i.mkUint(0)
		}
		return i.mkUint(uint64(kindOf(b.t)))
	})
	vm("Type", func(i *Interp, fr *frame, b *rvBox, a []value) value {
		if b == nil {
			panic(targetPanic{i.newError(Str{s: "reflect: call of reflect.Value.Type on zero Value"}, nil)})
		}
		return i.mkRType(b.t)
	})
	vm("Interface", func(i *Interp, fr *frame, b *rvBox, a []value) value {
		if b == nil {
			panic(targetPanic{i.newError(Str{s: "reflect: call of reflect.Value.Interface on zero Value"}, nil)})
		}
		if b.ro {
			panic(targetPanic{i.newError(Str{s: "reflect.Value.Interface: cannot return value obtained from unexported field or method"}, nil)})
		}
		if _, isI := b.t.Underlying().(*types.Interface); isI {
			if x, ok := b.v.(iface); ok {
				return x
			}
		}
		return iface{t: b.t, v: b.v}
	})
	vm("CanInterface", func(i *Interp, fr *frame, b *rvBox, a []value) value { return i.ctx.BoolC(b != nil && !b.ro) })
	vm("CanSet", func(i *Interp, fr *frame, b *rvBox, a []value) value {
		return i.ctx.BoolC(b != nil && b.addr != nil && !b.ro)
	})
	vm("CanAddr", func(i *Interp, fr *frame, b *rvBox, a []value) value { return i.ctx.BoolC(b != nil && b.addr != nil) })
	vm("Elem", func(i *Interp, fr *frame, b *rvBox, a []value) value {
		if b == nil {
			panic(targetPanic{i.newError(Str{s: "reflect: call of reflect.Value.Elem on zero Value"}, nil)})
		}
		switch u := b.t.Underlying().(type) {
		case *types.Pointer:
			p, _ := b.v.(*value)
			if p == nil {
				return i.mkRV(nil)
			}
			return i.mkRV(&rvBox{t: u.Elem(), v: copyVal(*p), addr: p, ro: b.ro})
		case *types.Interface:
			x, _ := b.v.(iface)
			if x.t == nil {
				return i.mkRV(nil)
			}
			return i.mkRV(&rvBox{t: x.t, v: x.v, ro: b.ro})
		}
		panic(targetPanic{i.newError(Str{s: "reflect: call of reflect.Value.Elem on " + kindOf(b.t).String() + " Value"}, nil)})
	})
	vm("Int", func(i *Interp, fr *frame, b *rvBox, a []value) value {
		if b == nil {
			panic(targetPanic{i.newError(Str{s: "reflect: call of reflect.Value.Int on zero Value"}, nil)})
		}
		return i.ctx.SExt(b.v.(*smt.Term), 64)
	})
	vm("Uint", func(i *Interp, fr *frame, b *rvBox, a []value) value {
		t := b.v.(*smt.Term)
		return i.ctx.ZExt(t, 64)
	})
	vm("Float", func(i *Interp, fr *frame, b *rvBox, a []value) value {
		return i.ctx.FToF(b.v.(*smt.Term), smt.FP(64))
	})
	vm("Bool", func(i *Interp, fr *frame, b *rvBox, a []value) value { return b.v })
	vm("String", func(i *Interp, fr *frame, b *rvBox, a []value) value {
		if b == nil {
			return Str{s: "<invalid Value>"}
		}
		if s, ok := b.v.(Str); ok && kindOf(b.t) == reflect.String {
			return s
		}
		return Str{s: "<" + typeStringReflect(b.t) + " Value>"}
	})
	vm("Bytes", func(i *Interp, fr *frame, b *rvBox, a []value) value { return b.v })
	vm("Len", func(i *Interp, fr *frame, b *rvBox, a []value) value {
		switch x := b.v.(type) {
		case []value:
			return i.mkInt(int64(len(x)))
		case array:
			return i.mkInt(int64(len(x)))
		case Str:
			return i.mkInt(int64(x.Len()))
		case *mapv:
			return i.mkInt(int64(x.len()))
		case *chanv:
			if x == nil {
				return i.mkInt(0)
			}
			return i.mkInt(int64(len(x.buf)))
		}
		panic(targetPanic{i.newError(Str{s: "reflect: call of reflect.Value.Len on " + kindOf(b.t).String() + " Value"}, nil)})
	})
	vm("IsNil", func(i *Interp, fr *frame, b *rvBox, a []value) value {
		if b == nil {
			panic(targetPanic{i.newError(Str{s: "reflect: call of reflect.Value.IsNil on zero Value"}, nil)})
		}
		switch kindOf(b.t) {
		case reflect.Ptr, reflect.Map, reflect.Slice, reflect.Chan, reflect.Func, reflect.Interface, reflect.UnsafePointer:
			if bm, ok := b.v.(*boundMethod); ok {
				return i.ctx.BoolC(bm == nil)
			}
			return i.ctx.BoolC(isNilValue(b.v))
		}
		panic(targetPanic{i.newError(Str{s: "reflect: call of reflect.Value.IsNil on " + kindOf(b.t).String() + " Value"}, nil)})
	})
	vm("IsZero", func(i *Interp, fr *frame, b *rvBox, a []value) value {
		return i.equals(b.t, b.v, i.zero(b.t))
	})
	vm("Index", func(i *Interp, fr *frame, b *rvBox, a []value) value {
		k := int(i.asInt(a[0], true, "reflect.Value.Index"))
		switch x := b.v.(type) {
		case []value:
			if k < 0 || k >= len(x) {
				panic(targetPanic{i.newError(Str{s: "reflect: slice index out of range"}, nil)})
			}
			return i.mkRV(&rvBox{t: b.t.Underlying().(*types.Slice).Elem(), v: copyVal(x[k]), addr: &x[k], ro: b.ro})
		case array:
			return i.mkRV(&rvBox{t: b.t.Underlying().(*types.Array).Elem(), v: copyVal(x[k]), ro: b.ro})
		}
		panic(targetPanic{i.newError(Str{s: "reflect: call of reflect.Value.Index on " + kindOf(b.t).String() + " Value"}, nil)})
	})
	vm("NumField", func(i *Interp, fr *frame, b *rvBox, a []value) value {
		st, ok := b.t.Underlying().(*types.Struct)
		if !ok {
			panic(targetPanic{i.newError(Str{s: "reflect: call of reflect.Value.NumField on " + kindOf(b.t).String() + " Value"}, nil)})
		}
		return i.mkInt(int64(st.NumFields()))
	})
	fieldAt := func(i *Interp, b *rvBox, k int) value {
		st := b.t.Underlying().(*types.Struct)
		sv := b.v.(structure)
		nb := &rvBox{t: st.Field(k).Type(), v: copyVal(sv[k]), ro: b.ro || (!st.Field(k).Exported() && !st.Field(k).Embedded())}
		if b.addr != nil {
			if cur, ok := (*b.addr).(structure); ok {
				nb.addr = &cur[k]
				nb.v = copyVal(cur[k])
			}
		}
		return i.mkRV(nb)
	}
	vm("Field", func(i *Interp, fr *frame, b *rvBox, a []value) value {
		st, ok := b.t.Underlying().(*types.Struct)
		if !ok {
			panic(targetPanic{i.newError(Str{s: "reflect: call of reflect.Value.Field on " + kindOf(b.t).String() + " Value"}, nil)})
		}
		k := int(i.asInt(a[0], true, "reflect.Value.Field"))
		if k < 0 || k >= st.NumFields() {
			panic(targetPanic{i.newError(Str{s: "reflect: Field index out of range"}, nil)})
		}
		return fieldAt(i, b, k)
	})
	vm("FieldByName", func(i *Interp, fr *frame, b *rvBox, a []value) value {
		if b == nil {
			panic(targetPanic{i.newError(Str{s: "reflect: call of reflect.Value.FieldByName on zero Value"}, nil)})
		}
		st, ok := b.t.Underlying().(*types.Struct)
		if !ok {
			panic(targetPanic{i.newError(Str{s: "reflect: call of reflect.Value.FieldByName on " + kindOf(b.t).String() + " Value"}, nil)})
		}
		name := i.concreteStr(a[0], "reflect.Value.FieldByName")
		for k := 0; k < st.NumFields(); k++ {
			if st.Field(k).Name() == name {
				return fieldAt(i, b, k)
			}
		}
		// promoted fields of embedded structs (one level)
		for k := 0; k < st.NumFields(); k++ {
			if st.Field(k).Embedded() {
				if est, ok := st.Field(k).Type().Underlying().(*types.Struct); ok {
					for j := 0; j < est.NumFields(); j++ {
						if est.Field(j).Name() == name {
							inner := i.rvOf(fieldAt(i, b, k))
							return fieldAt(i, inner, j)
						}
					}
				}
			}
		}
		return i.mkRV(nil)
	})
	vm("NumMethod", func(i *Interp, fr *frame, b *rvBox, a []value) value {
		return i.mkInt(int64(len(i.exportedMethods(b.t))))
	})
	vm("Method", func(i *Interp, fr *frame, b *rvBox, a []value) value {
		ms := i.exportedMethods(b.t)
		k := int(i.asInt(a[0], true, "reflect.Value.Method"))
		if k < 0 || k >= len(ms) {
			panic(targetPanic{i.newError(Str{s: "reflect: Method index out of range"}, nil)})
		}
		return i.methodValue(b, ms[k])
	})
	vm("MethodByName", func(i *Interp, fr *frame, b *rvBox, a []value) value {
		if b == nil {
			panic(targetPanic{i.newError(Str{s: "reflect: call of reflect.Value.MethodByName on zero Value"}, nil)})
		}
		name := i.concreteStr(a[0], "reflect.Value.MethodByName")
		for _, sel := range i.exportedMethods(b.t) {
			if sel.Obj().Name() == name {
				return i.methodValue(b, sel)
			}
		}
		return i.mkRV(nil)
	})
	vm("Call", func(i *Interp, fr *frame, b *rvBox, a []value) value {
		if b == nil {
			panic(targetPanic{i.newError(Str{s: "reflect: call of reflect.Value.Call on zero Value"}, nil)})
		}
		sig, ok := b.t.Underlying().(*types.Signature)
		if !ok {
			panic(targetPanic{i.newError(Str{s: "reflect: call of reflect.Value.Call on " + kindOf(b.t).String() + " Value"}, nil)})
		}
		ins, _ := a[0].([]value)
		if len(ins) != sig.Params().Len() && !sig.Variadic() {
			panic(targetPanic{i.newError(Str{s: "reflect: Call with too few/many input arguments"}, nil)})
		}
		var fnv value
		var cargs []value
		if bm, ok := b.v.(*boundMethod); ok {
			fnv = bm.fn
			cargs = append(cargs, bm.recv)
		} else {
			fnv = b.v
		}
		for k, in := range ins {
			ib := i.rvOf(in)
			if ib == nil {
				panic(targetPanic{i.newError(Str{s: "reflect: Call using zero Value argument"}, nil)})
			}
			pt := sig.Params().At(k).Type()
			av := ib.v
			if _, isI := pt.Underlying().(*types.Interface); isI {
				if _, already := av.(iface); !already {
					av = iface{t: ib.t, v: ib.v}
				}
			} else if !types.AssignableTo(ib.t, pt) {
				panic(targetPanic{i.newError(Str{s: "reflect: Call using " + ib.t.String() + " as type " + pt.String()}, nil)})
			}
			cargs = append(cargs, av)
		}
		res := i.call(fr, fnv, cargs)
		out := []value{}
		switch sig.Results().Len() {
		case 0:
		case 1:
			out = append(out, i.mkRV(&rvBox{t: sig.Results().At(0).Type(), v: res}))
		default:
			for k, r := range res.(tuple) {
				out = append(out, i.mkRV(&rvBox{t: sig.Results().At(k).Type(), v: r}))
			}
		}
		return out
	})
	vm("Set", func(i *Interp, fr *frame, b *rvBox, a []value) value {
		if b == nil || b.addr == nil {
			panic(targetPanic{i.newError(Str{s: "reflect: reflect.Value.Set using unaddressable value"}, nil)})
		}
		src := i.rvMust(a[0], "Set")
		v := src.v
		if _, isI := b.t.Underlying().(*types.Interface); isI {
			if _, already := v.(iface); !already {
				v = iface{t: src.t, v: src.v}
			}
		}
		storeInPlace(b.addr, v)
		return nil
	})
	setScalar := func(i *Interp, fr *frame, b *rvBox, a []value) value {
		if b == nil || b.addr == nil {
			panic(targetPanic{i.newError(Str{s: "reflect: reflect.Value.Set using unaddressable value"}, nil)})
		}
		v := a[0]
		if t, ok := v.(*smt.Term); ok {
			if ds, ok := sortOf(b.t); ok && ds.K == smt.KBV && t.Sort.K == smt.KBV && ds.W < t.Sort.W {
				v = i.ctx.Extract(t, ds.W-1, 0)
			} else if ok && ds.K == smt.KFP {
				v = i.ctx.FToF(t, ds)
			}
		}
		*b.addr = v
		return nil
	}
	for _, n := range []string{"SetInt", "SetUint", "SetFloat", "SetBool", "SetString", "SetBytes"} {
		vm(n, setScalar)
	}
	vm("Addr", func(i *Interp, fr *frame, b *rvBox, a []value) value {
		if b == nil || b.addr == nil {
			panic(targetPanic{i.newError(Str{s: "reflect.Value.Addr of unaddressable value"}, nil)})
		}
		return i.mkRV(&rvBox{t: types.NewPointer(b.t), v: b.addr})
	})
	vm("MapKeys", func(i *Interp, fr *frame, b *rvBox, a []value) value {
		m, _ := b.v.(*mapv)
		kt := b.t.Underlying().(*types.Map).Key()
		out := []value{}
		for _, e := range m.live() {
			out = append(out, i.mkRV(&rvBox{t: kt, v: e.k}))
		}
		return out
	})
	vm("MapIndex", func(i *Interp, fr *frame, b *rvBox, a []value) value {
		m, _ := b.v.(*mapv)
		kb := i.rvMust(a[0], "MapIndex")
		k := kb.v
		if _, isI := b.t.Underlying().(*types.Map).Key().Underlying().(*types.Interface); isI {
			if _, already := k.(iface); !already {
				k = iface{t: kb.t, v: kb.v}
			}
		}
		v, ok := i.mapGet(m, k)
		if !ok {
			return i.mkRV(nil)
		}
		return i.mkRV(&rvBox{t: b.t.Underlying().(*types.Map).Elem(), v: copyVal(v)})
	})
	vm("Pointer", func(i *Interp, fr *frame, b *rvBox, a []value) value { return poison{"reflect.Value.Pointer"} })
	vm("Convert", func(i *Interp, fr *frame, b *rvBox, a []value) value {
		t := i.rtypeOf(a[0])
		return i.mkRV(&rvBox{t: t, v: i.conv(t, b.t, b.v)})
	})
}

// deepEqual implements reflect.DeepEqual over interface values (forks on symbolic scalars).
func (i *Interp) deepEqual(a, b value, depth int) bool {
	if depth > 40 {
		i.abort(stInconclusive, "reflect.DeepEqual recursion too deep")
	}
	x, y := a.(iface), b.(iface)
	if x.t == nil || y.t == nil {
		return x.t == nil && y.t == nil
	}
	if !types.Identical(x.t, y.t) {
		return false
	}
	return i.deepEqualTyped(x.t, x.v, y.v, depth)
}

func (i *Interp) deepEqualTyped(t types.Type, a, b value, depth int) bool {
	if _, isP := a.(poison); isP {
		i.abort(stInconclusive, "reflect.DeepEqual of unsupported value")
	}
	switch u := t.Underlying().(type) {
	case *types.Basic:
		return i.decide(i.equals(t, a, b), "DeepEqual")
	case *types.Pointer:
		pa, pb := a.(*value), b.(*value)
		if pa == pb {
			return true
		}
		if pa == nil || pb == nil {
			return false
		}
		return i.deepEqualTyped(u.Elem(), *pa, *pb, depth+1)
	case *types.Slice:
		sa, sb := a.([]value), b.([]value)
		if (sa == nil) != (sb == nil) || len(sa) != len(sb) {
			return false
		}
		for k := range sa {
			if !i.deepEqualTyped(u.Elem(), sa[k], sb[k], depth+1) {
				return false
			}
		}
		return true
	case *types.Array:
		sa, sb := a.(array), b.(array)
		for k := range sa {
			if !i.deepEqualTyped(u.Elem(), sa[k], sb[k], depth+1) {
				return false
			}
		}
		return true
	case *types.Struct:
		sa, sb := a.(structure), b.(structure)
		for k := range sa {
			if !i.deepEqualTyped(u.Field(k).Type(), sa[k], sb[k], depth+1) {
				return false
			}
		}
		return true
	case *types.Interface:
		return i.deepEqual(a, b, depth+1)
	case *types.Map:
		ma, mb := a.(*mapv), b.(*mapv)
		if (ma == nil) != (mb == nil) || ma.len() != mb.len() {
			return false
		}
		if ma == mb {
			return true
		}
		for _, e := range ma.live() {
			v, ok := i.mapGet(mb, e.k)
			if !ok || !i.deepEqualTyped(u.Elem(), e.v, v, depth+1) {
				return false
			}
		}
		return true
	case *types.Signature:
		return isNilValue(a) && isNilValue(b)
	}
	return i.decide(i.equals(t, a, b), "DeepEqual")
}

var _ = strings.TrimSpace
