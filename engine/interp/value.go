// Package interp is a symbolic interpreter for go/ssa: scalars are SMT terms,
// the heap is concrete in shape. Layout of values follows
// golang.org/x/tools/go/ssa/interp (BSD licence, see LICENSE.x-tools).
package interp

import (
	"fmt"
	"go/types"
	"strings"

	"golang.org/x/tools/go/ssa"

	"verif/engine/smt"
)

// value is one of:
//   *smt.Term            bool, integers, floats, uintptr
//   Str                  string
//   []value              slice
//   structure, array     aggregates (copied on load/store)
//   *value               pointer
//   iface                interface (t==nil: nil interface)
//   *mapv                map
//   *chanv               channel
//   *ssa.Function, *ssa.Builtin, *closure   func
//   tuple                multiple results
//   upointer             unsafe.Pointer
//   poison               unsupported
type value interface{}

type tuple []value
type array []value
type structure []value

type iface struct {
	t types.Type
	v value
}

type closure struct {
	Fn  *ssa.Function
	Env []value
}

type upointer struct{ v value }

// sliceData is the result of unsafe.SliceData / StringData.
type sliceData struct {
	s   []value
	str *Str
}

type poison struct{ why string }

type bad struct{}

// Str is a string value: concrete (sym==nil) or a sequence of byte terms.
// opaque strings have unknown content (formatted symbolic data).
type Str struct {
	s      string
	sym    []*smt.Term
	opaque bool
	doc    *jsonDoc // opaque text of a symbolic JSON document (see jsonmodel.go)
}

func (x Str) Len() int {
	if x.doc != nil {
		return x.doc.n
	}
	if x.sym != nil {
		return len(x.sym)
	}
	return len(x.s)
}

func (x Str) Concrete() (string, bool) {
	if x.opaque {
		return "", false
	}
	if x.sym == nil {
		return x.s, true
	}
	b := make([]byte, len(x.sym))
	for i, t := range x.sym {
		if !t.IsConst() {
			return "", false
		}
		b[i] = byte(t.C)
	}
	return string(b), true
}

var bv8 = smt.BV(8)

func (x Str) at(c *smt.Ctx, i int) *smt.Term {
	if x.sym != nil {
		return x.sym[i]
	}
	return c.Const(bv8, uint64(x.s[i]))
}

func (x Str) terms(c *smt.Ctx) []*smt.Term {
	if x.sym != nil {
		return x.sym
	}
	r := make([]*smt.Term, len(x.s))
	for i := 0; i < len(x.s); i++ {
		r[i] = c.Const(bv8, uint64(x.s[i]))
	}
	return r
}

func mkStr(ts []*smt.Term) Str {
	all := true
	for _, t := range ts {
		if !t.IsConst() {
			all = false
			break
		}
	}
	if all {
		b := make([]byte, len(ts))
		for i, t := range ts {
			b[i] = byte(t.C)
		}
		return Str{s: string(b)}
	}
	if ts == nil {
		ts = []*smt.Term{}
	}
	return Str{sym: ts}
}

func (x Str) String() string {
	if x.opaque {
		return "<opaque>"
	}
	if s, ok := x.Concrete(); ok {
		return fmt.Sprintf("%q", s)
	}
	var sb strings.Builder
	sb.WriteString("sym\"")
	for _, t := range x.sym {
		if t.IsConst() {
			if t.C >= 32 && t.C < 127 {
				sb.WriteByte(byte(t.C))
			} else {
				fmt.Fprintf(&sb, "\\x%02x", t.C)
			}
		} else {
			sb.WriteString("{" + t.String() + "}")
		}
	}
	sb.WriteString("\"")
	return sb.String()
}

// ---- type helpers ----

func deref(t types.Type) types.Type {
	if p, ok := t.Underlying().(*types.Pointer); ok {
		return p.Elem()
	}
	panic(fmt.Sprintf("deref of non-pointer %v", t))
}

func isSigned(t types.Type) bool {
	b, ok := t.Underlying().(*types.Basic)
	return ok && b.Info()&types.IsInteger != 0 && b.Info()&types.IsUnsigned == 0
}

func sortOf(t types.Type) (smt.Sort, bool) {
	b, ok := t.Underlying().(*types.Basic)
	if !ok {
		return smt.Sort{}, false
	}
	switch b.Kind() {
	case types.Bool, types.UntypedBool:
		return smt.Bool, true
	case types.Int8, types.Uint8:
		return smt.BV(8), true
	case types.Int16, types.Uint16:
		return smt.BV(16), true
	case types.Int32, types.Uint32, types.UntypedRune:
		return smt.BV(32), true
	case types.Int, types.Uint, types.Int64, types.Uint64, types.Uintptr, types.UntypedInt:
		return smt.BV(64), true
	case types.Float32:
		return smt.FP(32), true
	case types.Float64, types.UntypedFloat:
		return smt.FP(64), true
	}
	return smt.Sort{}, false
}

// zero returns the zero value of t.
func (i *Interp) zero(t types.Type) value {
	switch t := t.(type) {
	case *types.Basic:
		if t.Kind() == types.UntypedNil {
			panic("untyped nil has no zero value")
		}
		if t.Info()&types.IsString != 0 {
			return Str{}
		}
		if t.Kind() == types.UnsafePointer {
			return upointer{}
		}
		if s, ok := sortOf(t); ok {
			return i.ctx.Const(s, 0)
		}
		return poison{"zero of " + t.String()}
	case *types.Pointer:
		return (*value)(nil)
	case *types.Array:
		a := make(array, t.Len())
		for k := range a {
			a[k] = i.zero(t.Elem())
		}
		return a
	case *types.Named:
		return i.zero(t.Underlying())
	case *types.Alias:
		return i.zero(types.Unalias(t))
	case *types.Interface:
		return iface{}
	case *types.Slice:
		return []value(nil)
	case *types.Struct:
		s := make(structure, t.NumFields())
		for k := range s {
			s[k] = i.zero(t.Field(k).Type())
		}
		return s
	case *types.Tuple:
		if t.Len() == 1 {
			return i.zero(t.At(0).Type())
		}
		s := make(tuple, t.Len())
		for k := range s {
			s[k] = i.zero(t.At(k).Type())
		}
		return s
	case *types.Chan:
		return (*chanv)(nil)
	case *types.Map:
		return (*mapv)(nil)
	case *types.Signature:
		return (*ssa.Function)(nil)
	case *types.TypeParam:
		return poison{"zero of type parameter"}
	}
	panic(fmt.Sprintf("zero: unexpected %T", t))
}

func copyVal(v value) value {
	switch v := v.(type) {
	case array:
		a := make(array, len(v))
		for k, x := range v {
			a[k] = copyVal(x)
		}
		return a
	case structure:
		a := make(structure, len(v))
		for k, x := range v {
			a[k] = copyVal(x)
		}
		return a
	}
	return v
}

// isNilValue reports whether v is the nil value of a nilable type.
func isNilValue(v value) bool {
	switch v := v.(type) {
	case *value:
		return v == nil
	case []value:
		return v == nil
	case *mapv:
		return v == nil
	case *chanv:
		return v == nil
	case *ssa.Function:
		return v == nil
	case *closure:
		return v == nil
	case iface:
		return v.t == nil
	case upointer:
		return v.v == nil || isNilValue(v.v)
	}
	return false
}

// equals returns the Bool term for x == y at static type t.
func (i *Interp) equals(t types.Type, x, y value) *smt.Term {
	c := i.ctx
	if p, ok := x.(poison); ok {
		i.abort(stInconclusive, "comparison of unsupported value: "+p.why)
	}
	if p, ok := y.(poison); ok {
		i.abort(stInconclusive, "comparison of unsupported value: "+p.why)
	}
	switch x := x.(type) {
	case *smt.Term:
		y := y.(*smt.Term)
		if x.Sort.K == smt.KFP {
			return c.FCmp(smt.OpFEq, x, y)
		}
		return c.Eq(x, y)
	case Str:
		return i.strEq(x, y.(Str))
	case *value:
		return c.BoolC(x == y.(*value))
	case *mapv:
		return c.BoolC(x == y.(*mapv))
	case *chanv:
		return c.BoolC(x == y.(*chanv))
	case upointer:
		yy := y.(upointer)
		if isNilValue(x) || isNilValue(yy) {
			return c.BoolC(isNilValue(x) && isNilValue(yy))
		}
		if xp, ok := x.v.(*value); ok {
			if yp, ok := yy.v.(*value); ok {
				return c.BoolC(xp == yp)
			}
		}
		return c.BoolC(false)
	case []value: // only comparable to nil
		return c.BoolC(x == nil && y.([]value) == nil)
	case *ssa.Function, *closure, *ssa.Builtin:
		return c.BoolC(isNilValue(x) && isNilValue(y))
	case rtypeVal:
		yy, ok := y.(rtypeVal)
		return c.BoolC(ok && types.Identical(x.t, yy.t))
	case *boundMethod:
		return c.BoolC(false)
	case *rvBox:
		return c.BoolC(x == y)
	case iface:
		y := y.(iface)
		if x.t == nil || y.t == nil {
			return c.BoolC(x.t == nil && y.t == nil)
		}
		if !types.Identical(x.t, y.t) {
			return c.False
		}
		if !types.Comparable(x.t) {
			i.targetPanicStr("runtime error: comparing uncomparable type " + x.t.String())
		}
		return i.equals(x.t, x.v, y.v)
	case structure:
		y := y.(structure)
		r := c.True
		st, _ := t.Underlying().(*types.Struct)
		for k := range x {
			var ft types.Type
			if st != nil {
				if st.Field(k).Name() == "_" {
					continue
				}
				ft = st.Field(k).Type()
			}
			r = c.And(r, i.equals(ft, x[k], y[k]))
			if r == c.False {
				return r
			}
		}
		return r
	case array:
		y := y.(array)
		r := c.True
		var et types.Type
		if at, ok := t.Underlying().(*types.Array); ok {
			et = at.Elem()
		}
		for k := range x {
			r = c.And(r, i.equals(et, x[k], y[k]))
		}
		return r
	}
	panic(fmt.Sprintf("equals: unexpected %T", x))
}

func (i *Interp) strEq(x, y Str) *smt.Term {
	c := i.ctx
	if x.opaque || y.opaque {
		i.abort(stInconclusive, "comparison of opaque (formatted symbolic) string")
	}
	if x.sym == nil && y.sym == nil {
		return c.BoolC(x.s == y.s)
	}
	if x.Len() != y.Len() {
		return c.False
	}
	r := c.True
	for k := 0; k < x.Len(); k++ {
		r = c.And(r, c.Eq(x.at(c, k), y.at(c, k)))
		if r == c.False {
			return r
		}
	}
	return r
}

// strLess returns the term for x < y (bytewise lexicographic).
func (i *Interp) strLess(x, y Str) *smt.Term {
	c := i.ctx
	if x.opaque || y.opaque {
		i.abort(stInconclusive, "ordering of opaque string")
	}
	if x.sym == nil && y.sym == nil {
		return c.BoolC(x.s < y.s)
	}
	n := x.Len()
	if y.Len() < n {
		n = y.Len()
	}
	// result = fold from the end
	var r *smt.Term
	if x.Len() < y.Len() {
		r = c.True
	} else {
		r = c.False
	}
	for k := n - 1; k >= 0; k-- {
		a, b := x.at(c, k), y.at(c, k)
		r = c.Ite(c.ULT(a, b), c.True, c.Ite(c.Eq(a, b), r, c.False))
	}
	return r
}

func (i *Interp) typeString(t types.Type) string {
	return types.TypeString(t, nil)
}

// toString renders a value for diagnostics.
func toString(v value) string {
	switch v := v.(type) {
	case nil:
		return "<nil>"
	case *smt.Term:
		return v.String()
	case Str:
		return v.String()
	case iface:
		if v.t == nil {
			return "nil"
		}
		return fmt.Sprintf("(%s)%s", v.t, toString(v.v))
	case structure:
		var sb strings.Builder
		sb.WriteString("{")
		for k, e := range v {
			if k > 0 {
				sb.WriteString(", ")
			}
			if k > 8 {
				sb.WriteString("…")
				break
			}
			sb.WriteString(toString(e))
		}
		sb.WriteString("}")
		return sb.String()
	case array:
		return fmt.Sprintf("array[%d]", len(v))
	case []value:
		if v == nil {
			return "nil"
		}
		var sb strings.Builder
		sb.WriteString("[")
		for k, e := range v {
			if k > 0 {
				sb.WriteString(" ")
			}
			if k > 16 {
				sb.WriteString("…")
				break
			}
			sb.WriteString(toString(e))
		}
		sb.WriteString("]")
		return sb.String()
	case *value:
		if v == nil {
			return "nil"
		}
		return fmt.Sprintf("&%p", v)
	case tuple:
		var sb strings.Builder
		sb.WriteString("(")
		for k, e := range v {
			if k > 0 {
				sb.WriteString(", ")
			}
			sb.WriteString(toString(e))
		}
		sb.WriteString(")")
		return sb.String()
	case poison:
		return "poison(" + v.why + ")"
	case *ssa.Function:
		if v == nil {
			return "nil"
		}
		return v.String()
	case *closure:
		return "closure " + v.Fn.String()
	}
	return fmt.Sprintf("%T", v)
}
