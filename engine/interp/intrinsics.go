package interp

import (
	"fmt"
	"go/types"
	"strings"

	"golang.org/x/tools/go/ssa"

	"verif/engine/smt"
)

var i64s = smt.BV(64)

func (i *Interp) mkInt(v int64) *smt.Term { return i.ctx.Const(i64s, uint64(v)) }

// findIntrinsic returns the engine implementation for fn, or nil.
func (i *Interp) findIntrinsic(fn *ssa.Function) intrinsic {
	name := fn.String()
	if o := fn.Origin(); o != nil {
		name = o.String()
	}
	if strings.HasPrefix(name, i.P.VrtPath+".") {
		if f, ok := vrtIntrinsics[name[len(i.P.VrtPath)+1:]]; ok {
			return f
		}
		panic("vrt function without engine implementation: " + name)
	}
	if f, ok := intrinsics[name]; ok {
		return f
	}
	// whole packages that are no-ops
	var pkgPath string
	if fn.Pkg != nil {
		pkgPath = fn.Pkg.Pkg.Path()
	} else if o := fn.Object(); o != nil && o.Pkg() != nil {
		pkgPath = o.Pkg().Path()
	}
	switch pkgPath {
	case i.P.ModPath + "/pkg/util/log", "log", "internal/race", "runtime/debug", "go.uber.org/zap", "runtime/trace", "runtime/pprof":
		if fn.Parent() == nil {
			return intrNoop
		}
	}
	if strings.HasPrefix(name, "(*reflect.rtype).") || strings.HasPrefix(name, "(reflect.Value).") || (strings.HasPrefix(name, "reflect.") && fn.Parent() == nil && !strings.HasPrefix(name, "reflect.init")) {
		// (generic helpers such as reflect.TypeFor are interpreted: they only call modelled API)
		if b := []byte(fn.Name()); len(b) > 0 && b[0] >= 'A' && b[0] <= 'Z' && len(fn.TypeArgs()) == 0 {
			return func(i *Interp, fr *frame, fn *ssa.Function, args []value) value {
				i.abort(stInconclusive, "reflect API not modelled: "+name)
				return nil
			}
		}
	}
	if f := i.sqlIntrinsic(fn, name); f != nil {
		return f
	}
	if f := i.compressIntrinsic(fn, name); f != nil {
		return f
	}
	if f := i.protoIntrinsic(fn, name); f != nil {
		return f
	}
	if f := i.nativeBridge(fn, name); f != nil {
		return f
	}
	return nil
}

func intrNoop(i *Interp, fr *frame, fn *ssa.Function, args []value) value {
	return i.zeroResultsPoisonFree(fn)
}

// zeroResultsPoisonFree: results of a no-op'd function: zero values.
func (i *Interp) zeroResultsPoisonFree(fn *ssa.Function) value {
	return i.zeroResults(fn)
}

func (i *Interp) inputName(n string) string {
	ex := i.ex
	ex.varSeq[n]++
	if ex.varSeq[n] > 1 {
		return fmt.Sprintf("%s#%d", n, ex.varSeq[n])
	}
	return n
}

func (i *Interp) concreteStr(v value, what string) string {
	s, ok := v.(Str)
	if !ok {
		panic(fmt.Sprintf("%s: not a string: %T", what, v))
	}
	cs, ok := s.Concrete()
	if !ok {
		panic(what + ": string must be concrete")
	}
	return cs
}

func (i *Interp) newInput(name string, s smt.Sort) *smt.Term {
	n := i.inputName(name)
	t := i.ctx.Var(n, s)
	i.ex.inputs = append(i.ex.inputs, inputRec{name: n, t: t})
	i.ex.vars = append(i.ex.vars, t)
	return t
}

func vrtScalar(s smt.Sort) intrinsic {
	return func(i *Interp, fr *frame, fn *ssa.Function, args []value) value {
		return i.newInput(i.concreteStr(args[0], "vrt input name"), s)
	}
}

var vrtIntrinsics map[string]intrinsic
var intrinsics map[string]intrinsic

func init() {
	vrtIntrinsics = map[string]intrinsic{
		"Symbolic": func(i *Interp, fr *frame, fn *ssa.Function, args []value) value { return i.ctx.True },
		"Bool":     vrtScalar(smt.Bool),
		"Uint8":    vrtScalar(smt.BV(8)),
		"Uint16":   vrtScalar(smt.BV(16)),
		"Uint32":   vrtScalar(smt.BV(32)),
		"Uint64":   vrtScalar(smt.BV(64)),
		"Int8":     vrtScalar(smt.BV(8)),
		"Int16":    vrtScalar(smt.BV(16)),
		"Int32":    vrtScalar(smt.BV(32)),
		"Int64":    vrtScalar(smt.BV(64)),
		"Int":      vrtScalar(smt.BV(64)),
		"Float64": func(i *Interp, fr *frame, fn *ssa.Function, args []value) value {
			return i.ctx.FFromBits(i.newInput(i.concreteStr(args[0], "vrt input name"), smt.BV(64)))
		},
		"Float32": func(i *Interp, fr *frame, fn *ssa.Function, args []value) value {
			return i.ctx.FFromBits(i.newInput(i.concreteStr(args[0], "vrt input name"), smt.BV(32)))
		},
		"Bytes": func(i *Interp, fr *frame, fn *ssa.Function, args []value) value {
			base := i.inputName(i.concreteStr(args[0], "vrt input name"))
			n := int(i.asInt(args[1], true, "vrt.Bytes"))
			r := make([]value, n)
			for k := range r {
				nm := fmt.Sprintf("%s[%d]", base, k)
				t := i.ctx.Var(nm, bv8)
				i.ex.inputs = append(i.ex.inputs, inputRec{name: nm, t: t})
				i.ex.vars = append(i.ex.vars, t)
				r[k] = t
			}
			return r
		},
		"String": func(i *Interp, fr *frame, fn *ssa.Function, args []value) value {
			base := i.inputName(i.concreteStr(args[0], "vrt input name"))
			n := int(i.asInt(args[1], true, "vrt.String"))
			ts := make([]*smt.Term, n)
			for k := range ts {
				nm := fmt.Sprintf("%s[%d]", base, k)
				t := i.ctx.Var(nm, bv8)
				i.ex.inputs = append(i.ex.inputs, inputRec{name: nm, t: t})
				i.ex.vars = append(i.ex.vars, t)
				ts[k] = t
			}
			return mkStr(ts)
		},
		"Choice": func(i *Interp, fr *frame, fn *ssa.Function, args []value) value {
			n := i.inputName(i.concreteStr(args[0], "vrt choice name"))
			k := int(i.asInt(args[1], true, "vrt.Choice"))
			v := i.choiceN(k, "choice:"+n)
			i.ex.inputs = append(i.ex.inputs, inputRec{name: n, conc: uint64(v), isC: true})
			return i.mkInt(int64(v))
		},
		"Assume": func(i *Interp, fr *frame, fn *ssa.Function, args []value) value {
			i.assume(i.boolArg(args[0], "vrt.Assume"))
			return nil
		},
		"Assert": func(i *Interp, fr *frame, fn *ssa.Function, args []value) value {
			i.assert(i.boolArg(args[0], "vrt.Assert"), i.concreteStr(args[1], "vrt.Assert label"))
			return nil
		},
		"Reach": func(i *Interp, fr *frame, fn *ssa.Function, args []value) value {
			i.ex.reached[i.concreteStr(args[0], "vrt.Reach label")] = true
			return nil
		},
		"Observe": func(i *Interp, fr *frame, fn *ssa.Function, args []value) value {
			i.ex.obs = append(i.ex.obs, obsRec{i.concreteStr(args[0], "vrt.Observe label"), args[1]})
			return nil
		},
		"Redirect": func(i *Interp, fr *frame, fn *ssa.Function, args []value) value {
			tgt := i.funcOf(args[0].(iface).v)
			if tgt == nil {
				panic("vrt.Redirect: target is not a function")
			}
			i.redirects[tgt] = args[1].(iface).v
			return nil
		},
		"MaxAlloc": func(i *Interp, fr *frame, fn *ssa.Function, args []value) value {
			i.cfg.MaxAlloc = int(i.asInt(args[0], true, "vrt.MaxAlloc"))
			return nil
		},
		"Unwind": func(i *Interp, fr *frame, fn *ssa.Function, args []value) value {
			i.cfg.Unwind = int(i.asInt(args[0], true, "vrt.Unwind"))
			return nil
		},
		"StepBudget": func(i *Interp, fr *frame, fn *ssa.Function, args []value) value {
			i.cfg.StepBudget = i.asInt(args[0], true, "vrt.StepBudget")
			return nil
		},
		"Param": func(i *Interp, fr *frame, fn *ssa.Function, args []value) value {
			n := i.concreteStr(args[0], "vrt.Param name")
			if v, ok := i.cfg.Params[n]; ok {
				return i.mkInt(int64(v))
			}
			return args[1]
		},
		"Settle": func(i *Interp, fr *frame, fn *ssa.Function, args []value) value {
			i.settle()
			return nil
		},
		"SchedChoice": func(i *Interp, fr *frame, fn *ssa.Function, args []value) value {
			i.cfg.SchedChoice = i.boolArg(args[0], "vrt.SchedChoice").C != 0
			return nil
		},
	}
	intrinsics = map[string]intrinsic{}
	registerSync()
	registerRuntime()
	registerFmt()
	registerBytealg()
	registerTime()
	registerMisc()
	registerReflect()
	registerJSON()
}

func (i *Interp) boolArg(v value, what string) *smt.Term {
	t, ok := v.(*smt.Term)
	if !ok {
		if p, isP := v.(poison); isP {
			i.abort(stInconclusive, what+" on unsupported value: "+p.why)
		}
		panic(what + ": not a bool")
	}
	return t
}

// settle runs all other goroutines until none can make progress.
func (i *Interp) settle() {
	me := i.cur
	was := me.settling
	i.settleSeq++
	me.settling = i.settleSeq
	defer func() { me.settling = was }()
	for n := 0; n < 10000; n++ {
		// quiescent = nobody but goroutines that themselves wait in Settle could run
		i.quiescenceTest = true
		next := i.pickNext(me, true)
		i.quiescenceTest = false
		if next == nil {
			return
		}
		i.yield(false, "settle")
	}
	i.abort(stUnwound, "vrt.Settle did not quiesce")
}

// funcOf resolves a func value to the *ssa.Function it denotes; thunks and
// bound-method wrappers are resolved to the underlying method.
func (i *Interp) funcOf(v value) *ssa.Function {
	var fn *ssa.Function
	switch v := v.(type) {
	case *ssa.Function:
		fn = v
	case *closure:
		fn = v.Fn
	default:
		return nil
	}
	if fn == nil {
		return nil
	}
	if fn.Synthetic != "" && (strings.HasPrefix(fn.Synthetic, "thunk") || strings.HasPrefix(fn.Synthetic, "bound") || strings.HasPrefix(fn.Synthetic, "wrapper")) {
		// find the single static callee
		for _, b := range fn.Blocks {
			for _, in := range b.Instrs {
				if c, ok := in.(ssa.CallInstruction); ok {
					if callee := c.Common().StaticCallee(); callee != nil {
						return i.funcOf(callee)
					}
					if c.Common().IsInvoke() {
						panic("vrt.Redirect: interface method expressions are not supported; redirect the concrete method")
					}
				}
			}
		}
	}
	return fn
}

// ---- interpreter helpers used by models ----

func (i *Interp) lookupFunc(pkgPath, name string) *ssa.Function {
	p := i.P.Pkgs[pkgPath]
	if p == nil {
		return nil
	}
	return p.Func(name)
}

func (i *Interp) lookupType(pkgPath, name string) types.Type {
	key := pkgPath + "." + name
	if t, ok := i.typeCache[key]; ok {
		return t
	}
	p := i.P.Pkgs[pkgPath]
	if p == nil {
		return nil
	}
	m := p.Type(name)
	if m == nil {
		return nil
	}
	t := m.Type()
	i.typeCache[key] = t
	return t
}

// newError builds an error value with a concrete/symbolic message via the models package.
func (i *Interp) newError(msg Str, wrapped []value) value {
	f := i.lookupFunc(i.P.ModelPath, "NewFmtError")
	if f == nil {
		panic("models.NewFmtError missing")
	}
	ws := make([]value, len(wrapped))
	copy(ws, wrapped)
	var sl []value
	if len(ws) > 0 {
		sl = ws
	}
	return i.callSSA(nil, f, []value{msg, sl}, nil)
}

// callMethod calls the named method on an interface value; ok=false if absent.
func (i *Interp) callMethod(recv iface, name string, args ...value) (value, bool) {
	if recv.t == nil {
		return nil, false
	}
	m := i.findMethod(recv.t, name)
	if m == nil {
		return nil, false
	}
	return i.callSSA(nil, m, append([]value{recv.v}, args...), nil), true
}
