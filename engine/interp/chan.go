package interp

import (
	"fmt"
	"go/constant"
	"go/types"
	"runtime/debug"

	"golang.org/x/tools/go/ssa"

	"verif/engine/smt"
)

func constantString(c *ssa.Const) string {
	if c.Value.Kind() == constant.String {
		return constant.StringVal(c.Value)
	}
	return string(rune(c.Int64()))
}

func constantBool(c *ssa.Const) bool { return constant.BoolVal(c.Value) }

// ---- cooperative goroutines ----
//
// Each target goroutine runs on its own OS goroutine; exactly one holds the
// baton. A goroutine runs until it blocks (channel, mutex, WaitGroup, select,
// sleep) or finishes; then the scheduler hands the baton to the next runnable
// one (FIFO; with cfg.SchedChoice the choice is a path decision).

type gor struct {
	id      int
	wake    chan struct{}
	fn      value
	args    []value
	started bool
	done    bool
	blocked bool   // waiting for a condition (re-checked when woken)
	why     string // what it is blocked on
	isMain  bool
	abort   interface{} // panic value to re-raise in main
	sleepTo int64
	checkedAt int
	settling  int // >0 inside vrt.Settle (sequence number): an older settler waits for a newer one, not the reverse
}

type timer struct {
	at     int64
	ch     *chanv
	period int64
	fired  bool
	stopped bool
	fn     value // AfterFunc
}

type chanv struct {
	cap    int
	buf    []value
	closed bool
	elemT  types.Type
	// rendezvous for unbuffered channels
	recvWaiting int // number of goroutines blocked in receive
	handoff     []value
	name        string
}

func (i *Interp) startMain() {
	g := &gor{id: 0, wake: make(chan struct{}, 1), started: true, isMain: true}
	i.gors = []*gor{g}
	i.cur = g
}

func (i *Interp) spawn(fn value, args []value) {
	g := &gor{id: len(i.gors), wake: make(chan struct{}, 1), fn: fn, args: args}
	i.gors = append(i.gors, g)
}

// runnable returns goroutines that could make progress.
func (i *Interp) runnable(except *gor) []*gor {
	var r []*gor
	for _, g := range i.gors {
		if g == except || g.done {
			continue
		}
		if g.sleepTo > i.clock {
			continue
		}
		r = append(r, g)
	}
	return r
}

// yield gives the baton away. If blocked is true the current goroutine waits
// for a state change: it becomes eligible again after any other goroutine ran.
// Returns when this goroutine is scheduled again.
func (i *Interp) yield(blocked bool, why string) {
	me := i.cur
	me.blocked = blocked
	me.why = why
	i.step()
	for {
		next := i.pickNext(me, blocked)
		if next == nil {
			// nothing else can run
			if !blocked {
				me.blocked = false
				return
			}
			if i.advanceClock() {
				// a timer fired or a sleeper woke: state changed, let caller re-check
				me.blocked = false
				return
			}
			i.abort(stDeadlock, fmt.Sprintf("goroutine %d blocked forever on %s (all goroutines blocked)", me.id, why))
		}
		if next == me {
			me.blocked = false
			return
		}
		i.switchTo(me, next)
		if i.dead {
			panic(pathAbort{stKilled, "path ended"})
		}
		if me.abort != nil {
			a := me.abort
			me.abort = nil
			panic(a)
		}
		me.blocked = false
		return
	}
}

// pickNext chooses the goroutine to run after me yields.
func (i *Interp) pickNext(me *gor, blocked bool) *gor {
	var cands []*gor
	// round-robin starting after me
	n := len(i.gors)
	for k := 1; k <= n; k++ {
		g := i.gors[(me.id+k)%n]
		if g.done || g.sleepTo > i.clock {
			continue
		}
		if g == me {
			if !blocked {
				cands = append(cands, g)
			}
			continue
		}
		if i.quiescenceTest && g.settling != 0 && g.settling < me.settling {
			continue // g waits (in its own Settle) for me to quiesce
		}
		cands = append(cands, g)
	}
	// filter: blocked goroutines that already re-checked since the last state change
	var out []*gor
	for _, g := range cands {
		if g.blocked && g.checkedAt == i.stateVersion {
			continue
		}
		out = append(out, g)
	}
	if len(out) == 0 {
		return nil
	}
	if i.cfg.SchedChoice && len(out) > 1 {
		k := i.choiceN(len(out), "sched")
		return out[k]
	}
	return out[0]
}

func (i *Interp) switchTo(me, next *gor) {
	i.cur = next
	if !next.started {
		next.started = true
		go i.gorMain(next)
	} else {
		next.wake <- struct{}{}
	}
	<-me.wake
	i.cur = me
}

// gorMain is the body of a spawned goroutine's OS goroutine.
func (i *Interp) gorMain(g *gor) {
	defer func() {
		r := recover()
		g.done = true
		i.stateVersion++
		if r != nil {
			if pa, ok := r.(pathAbort); ok && pa.st == stKilled {
				i.killAck <- struct{}{}
				return
			}
			if _, ok := r.(pathAbort); !ok {
				if _, ok := r.(targetPanic); !ok {
					r = pathAbort{stInconclusive, fmt.Sprintf("engine error in goroutine: %v\n%s", r, debug.Stack())}
				}
			}
			// a panic in any goroutine ends the program: deliver to main
			main := i.gors[0]
			main.abort = r
			i.cur = main
			main.wake <- struct{}{}
			return
		}
		if i.dead {
			i.killAck <- struct{}{}
			return
		}
		// hand the baton on
		next := i.pickNext(g, true)
		for next == nil && i.advanceClock() {
			next = i.pickNext(g, true)
		}
		if next == nil {
			// everyone else is blocked and will stay so: report deadlock in main
			main := i.gors[0]
			if !main.done {
				main.abort = pathAbort{stDeadlock, fmt.Sprintf("goroutine %d blocked forever on %s", main.id, main.why)}
				i.cur = main
				main.wake <- struct{}{}
			}
			return
		}
		i.cur = next
		if !next.started {
			next.started = true
			go i.gorMain(next)
		} else {
			next.wake <- struct{}{}
		}
	}()
	i.call(nil, g.fn, g.args)
}

// killGoroutines unwinds all parked goroutines at the end of a path.
func (i *Interp) killGoroutines() {
	i.dead = true
	for _, g := range i.gors {
		if g.isMain || g.done || !g.started {
			continue
		}
		g.wake <- struct{}{}
		<-i.killAck
	}
	i.gors = nil
}

// blockUntil parks the current goroutine until cond() holds.
func (i *Interp) blockUntil(cond func() bool, why string) {
	for !cond() {
		i.cur.checkedAt = i.stateVersion
		i.yield(true, why)
	}
	i.stateVersion++
}

// advanceClock fires the earliest pending timer or wakes the earliest sleeper.
func (i *Interp) advanceClock() bool {
	var best int64 = -1
	for _, t := range i.timers {
		if t.fired || t.stopped {
			continue
		}
		if best < 0 || t.at < best {
			best = t.at
		}
	}
	for _, g := range i.gors {
		if !g.done && g.sleepTo > i.clock {
			if best < 0 || g.sleepTo < best {
				best = g.sleepTo
			}
		}
	}
	if best < 0 {
		return false
	}
	if best > i.clock {
		i.clock = best
	}
	for _, t := range i.timers {
		if t.fired || t.stopped || t.at > i.clock {
			continue
		}
		i.fireTimer(t)
	}
	i.stateVersion++
	return true
}

func (i *Interp) fireTimer(t *timer) {
	if t.fn != nil {
		t.fired = true
		i.spawn(t.fn, nil)
		return
	}
	if len(t.ch.buf) < t.ch.cap {
		t.ch.buf = append(t.ch.buf, i.timeValue(t.at))
	}
	if t.period > 0 {
		t.at += t.period
	} else {
		t.fired = true
	}
}

// ---- channels ----

func (i *Interp) chanSend(ch *chanv, v value) {
	if ch == nil {
		i.blockUntil(func() bool { return false }, "send on nil channel")
	}
	if ch.closed {
		i.targetPanicStr("send on closed channel")
	}
	if ch.cap > 0 {
		i.blockUntil(func() bool {
			if ch.closed {
				return true
			}
			return len(ch.buf) < ch.cap
		}, "chan send (buffer full)")
		if ch.closed {
			i.targetPanicStr("send on closed channel")
		}
		ch.buf = append(ch.buf, copyVal(v))
		return
	}
	// unbuffered: wait for a receiver, hand off
	i.blockUntil(func() bool { return ch.closed || ch.recvWaiting > len(ch.handoff) }, "chan send (no receiver)")
	if ch.closed {
		i.targetPanicStr("send on closed channel")
	}
	ch.handoff = append(ch.handoff, copyVal(v))
	i.stateVersion++
}

func (i *Interp) chanTryRecv(ch *chanv) (value, bool, bool) { // v, ok, ready
	if len(ch.buf) > 0 {
		v := ch.buf[0]
		ch.buf = ch.buf[1:]
		i.stateVersion++
		return v, true, true
	}
	if len(ch.handoff) > 0 {
		v := ch.handoff[0]
		ch.handoff = ch.handoff[1:]
		i.stateVersion++
		return v, true, true
	}
	if ch.closed {
		return i.zero(ch.elemT), false, true
	}
	return nil, false, false
}

func (i *Interp) chanRecv(ch *chanv, commaOk bool, _ types.Type) value {
	if ch == nil {
		i.blockUntil(func() bool { return false }, "receive from nil channel")
	}
	var v value
	var ok bool
	if r, o, ready := i.chanTryRecv(ch); ready {
		v, ok = r, o
	} else {
		ch.recvWaiting++
		i.stateVersion++
		i.blockUntil(func() bool {
			return len(ch.buf) > 0 || len(ch.handoff) > 0 || ch.closed
		}, "chan receive")
		ch.recvWaiting--
		v, ok, _ = i.chanTryRecv(ch)
	}
	if commaOk {
		return tuple{v, i.ctx.BoolC(ok)}
	}
	return v
}

func (i *Interp) chanClose(ch *chanv) {
	if ch == nil {
		i.targetPanicStr("close of nil channel")
	}
	if ch.closed {
		i.targetPanicStr("close of closed channel")
	}
	ch.closed = true
	i.stateVersion++
}

func (i *Interp) doSelect(fr *frame, instr *ssa.Select) value {
	type cs struct {
		ch   *chanv
		send bool
		v    value
	}
	var cases []cs
	for _, st := range instr.States {
		ch, _ := fr.get(st.Chan).(*chanv)
		c := cs{ch: ch, send: st.Dir == types.SendOnly}
		if c.send {
			c.v = fr.get(st.Send)
		}
		cases = append(cases, c)
	}
	ready := func() []int {
		var r []int
		for k, c := range cases {
			if c.ch == nil {
				continue
			}
			if c.send {
				if c.ch.closed || (c.ch.cap > 0 && len(c.ch.buf) < c.ch.cap) || (c.ch.cap == 0 && c.ch.recvWaiting > len(c.ch.handoff)) {
					r = append(r, k)
				}
			} else if len(c.ch.buf) > 0 || len(c.ch.handoff) > 0 || c.ch.closed {
				r = append(r, k)
			}
		}
		return r
	}
	rd := ready()
	if len(rd) == 0 && instr.Blocking {
		for _, c := range cases {
			if c.ch != nil && !c.send {
				c.ch.recvWaiting++
			}
		}
		i.stateVersion++
		i.blockUntil(func() bool { rd = ready(); return len(rd) > 0 }, "select")
		for _, c := range cases {
			if c.ch != nil && !c.send {
				c.ch.recvWaiting--
			}
		}
	}
	chosen := -1
	if len(rd) > 0 {
		chosen = rd[0]
		if len(rd) > 1 {
			chosen = rd[i.choiceN(len(rd), "select")]
		}
	}
	r := tuple{i.ctx.Const(smt.BV(64), uint64(int64(chosen))), i.ctx.False}
	var recvOk bool
	var recvVal value
	if chosen >= 0 {
		c := cases[chosen]
		if c.send {
			if c.ch.closed {
				i.targetPanicStr("send on closed channel")
			}
			if c.ch.cap > 0 {
				c.ch.buf = append(c.ch.buf, copyVal(c.v))
			} else {
				c.ch.handoff = append(c.ch.handoff, copyVal(c.v))
			}
			i.stateVersion++
		} else {
			recvVal, recvOk, _ = i.chanTryRecv(c.ch)
		}
	}
	r[1] = i.ctx.BoolC(recvOk)
	for k, st := range instr.States {
		if st.Dir == types.RecvOnly {
			if k == chosen {
				r = append(r, recvVal)
			} else {
				r = append(r, i.zero(st.Chan.Type().Underlying().(*types.Chan).Elem()))
			}
		}
	}
	return r
}
