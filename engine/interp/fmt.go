package interp

import (
	"fmt"
	"go/types"
	"math"
	"reflect"
	"strconv"
	"strings"
	"unicode"

	"golang.org/x/tools/go/ssa"

	"verif/engine/smt"
)

// nativeOf converts an interpreter value of static/dynamic type t to a native
// Go value when it is concrete and of a basic kind.
func (i *Interp) nativeOf(t types.Type, v value) (interface{}, bool) {
	switch v := v.(type) {
	case *smt.Term:
		if !v.IsConst() {
			return nil, false
		}
		b, ok := t.Underlying().(*types.Basic)
		if !ok {
			return nil, false
		}
		switch b.Kind() {
		case types.Bool, types.UntypedBool:
			return v.C != 0, true
		case types.Int:
			return int(int64(v.C)), true
		case types.Int8:
			return int8(v.C), true
		case types.Int16:
			return int16(v.C), true
		case types.Int32, types.UntypedRune:
			return int32(v.C), true
		case types.Int64, types.UntypedInt:
			return int64(v.C), true
		case types.Uint:
			return uint(v.C), true
		case types.Uint8:
			return uint8(v.C), true
		case types.Uint16:
			return uint16(v.C), true
		case types.Uint32:
			return uint32(v.C), true
		case types.Uint64:
			return v.C, true
		case types.Uintptr:
			return uintptr(v.C), true
		case types.Float32:
			return math.Float32frombits(uint32(v.C)), true
		case types.Float64, types.UntypedFloat:
			return math.Float64frombits(v.C), true
		}
	case Str:
		if s, ok := v.Concrete(); ok {
			return s, true
		}
	case []value:
		sl, ok := t.Underlying().(*types.Slice)
		if !ok {
			return nil, false
		}
		if eb, ok := sl.Elem().Underlying().(*types.Basic); ok {
			switch eb.Kind() {
			case types.Uint8:
				b := make([]byte, len(v))
				for k, e := range v {
					et, ok := e.(*smt.Term)
					if !ok || !et.IsConst() {
						return nil, false
					}
					b[k] = byte(et.C)
				}
				if v == nil {
					return []byte(nil), true
				}
				return b, true
			case types.String:
				r := make([]string, len(v))
				for k, e := range v {
					s, ok := e.(Str).Concrete()
					if !ok {
						return nil, false
					}
					r[k] = s
				}
				return r, true
			}
		}
	}
	return nil, false
}

func (i *Interp) fromNative(x interface{}) value {
	c := i.ctx
	switch x := x.(type) {
	case bool:
		return c.BoolC(x)
	case string:
		return Str{s: x}
	case int:
		return c.Const(i64s, uint64(int64(x)))
	case int8:
		return c.Const(smt.BV(8), uint64(x))
	case int16:
		return c.Const(smt.BV(16), uint64(x))
	case int32:
		return c.Const(smt.BV(32), uint64(x))
	case int64:
		return c.Const(i64s, uint64(x))
	case uint:
		return c.Const(i64s, uint64(x))
	case uint8:
		return c.Const(smt.BV(8), uint64(x))
	case uint16:
		return c.Const(smt.BV(16), uint64(x))
	case uint32:
		return c.Const(smt.BV(32), uint64(x))
	case uint64:
		return c.Const(i64s, x)
	case float32:
		return c.Const(smt.FP(32), uint64(math.Float32bits(x)))
	case float64:
		return c.Const(smt.FP(64), math.Float64bits(x))
	case []byte:
		if x == nil {
			return []value(nil)
		}
		r := make([]value, len(x))
		for k, b := range x {
			r[k] = c.Const(bv8, uint64(b))
		}
		return r
	case []string:
		if x == nil {
			return []value(nil)
		}
		r := make([]value, len(x))
		for k, s := range x {
			r[k] = Str{s: s}
		}
		return r
	case error:
		if x == nil {
			return iface{}
		}
		return i.newError(Str{s: x.Error()}, nil)
	case nil:
		return iface{}
	}
	return poison{fmt.Sprintf("native result of type %T", x)}
}

// nativeFuncs: pure std functions called natively when all arguments are concrete.
var nativeFuncs = map[string]interface{}{
	"strconv.Itoa": strconv.Itoa, "strconv.Atoi": strconv.Atoi,
	"strconv.FormatInt": strconv.FormatInt, "strconv.FormatUint": strconv.FormatUint,
	"strconv.ParseInt": strconv.ParseInt, "strconv.ParseUint": strconv.ParseUint,
	"strconv.ParseFloat": strconv.ParseFloat, "strconv.FormatFloat": strconv.FormatFloat,
	"strconv.ParseBool": strconv.ParseBool, "strconv.FormatBool": strconv.FormatBool,
	"strconv.Quote": strconv.Quote, "strconv.Unquote": strconv.Unquote,
	"strconv.AppendInt": strconv.AppendInt, "strconv.AppendUint": strconv.AppendUint,
	"strings.ToUpper": strings.ToUpper, "strings.ToLower": strings.ToLower, "strings.EqualFold": strings.EqualFold,
	"strings.Split": strings.Split, "strings.SplitN": strings.SplitN, "strings.Join": strings.Join,
	"strings.Replace": strings.Replace, "strings.ReplaceAll": strings.ReplaceAll,
	"strings.TrimSpace": strings.TrimSpace, "strings.Trim": strings.Trim, "strings.TrimLeft": strings.TrimLeft,
	"strings.TrimRight": strings.TrimRight, "strings.TrimPrefix": strings.TrimPrefix, "strings.TrimSuffix": strings.TrimSuffix,
	"strings.HasPrefix": strings.HasPrefix, "strings.HasSuffix": strings.HasSuffix,
	"strings.LastIndex": strings.LastIndex, "strings.IndexAny": strings.IndexAny,
	"strings.Repeat": strings.Repeat, "strings.Fields": strings.Fields, "strings.Count": strings.Count,
	"strings.Title": strings.Title, "strings.ContainsAny": strings.ContainsAny, "strings.ContainsRune": strings.ContainsRune,
	"strings.IndexRune": strings.IndexRune, "strings.Compare": strings.Compare, "strings.Cut": strings.Cut,
	"strings.SplitAfter": strings.SplitAfter, "strings.LastIndexByte": strings.LastIndexByte,
	"math.Floor": math.Floor, "math.Ceil": math.Ceil, "math.Sqrt": math.Sqrt, "math.Pow": math.Pow,
	"math.Log": math.Log, "math.Exp": math.Exp, "math.Mod": math.Mod, "math.Trunc": math.Trunc, "math.Round": math.Round,
	"math.Log2": math.Log2, "math.Log10": math.Log10, "math.Max": math.Max, "math.Min": math.Min, "math.Abs": math.Abs,
	"unicode.IsUpper": unicode.IsUpper, "unicode.IsLower": unicode.IsLower, "unicode.ToUpper": unicode.ToUpper,
	"unicode.ToLower": unicode.ToLower, "unicode.IsSpace": unicode.IsSpace, "unicode.IsDigit": unicode.IsDigit,
	"unicode.IsLetter": unicode.IsLetter,
}

// nativeBridge wraps a std function: native when concrete, interpreted otherwise.
func (i *Interp) nativeBridge(fn *ssa.Function, name string) intrinsic {
	nf, ok := nativeFuncs[name]
	if !ok {
		return nil
	}
	rv := reflect.ValueOf(nf)
	rt := rv.Type()
	return func(i *Interp, fr *frame, fn *ssa.Function, args []value) value {
		sig := fn.Signature
		in := make([]reflect.Value, len(args))
		ok := len(args) == rt.NumIn() && !rt.IsVariadic()
		for k := 0; ok && k < len(args); k++ {
			nv, isN := i.nativeOf(sig.Params().At(k).Type(), args[k])
			if !isN {
				ok = false
				break
			}
			x := reflect.ValueOf(nv)
			if !x.IsValid() || !x.Type().ConvertibleTo(rt.In(k)) {
				ok = false
				break
			}
			in[k] = x.Convert(rt.In(k))
		}
		if !ok {
			return i.callInterpreted(fr, fn, args)
		}
		out := rv.Call(in)
		switch len(out) {
		case 0:
			return nil
		case 1:
			return i.fromNativeRV(out[0])
		}
		t := make(tuple, len(out))
		for k, o := range out {
			t[k] = i.fromNativeRV(o)
		}
		return t
	}
}

func (i *Interp) fromNativeRV(o reflect.Value) value {
	if o.Kind() == reflect.Interface && o.IsNil() {
		return iface{}
	}
	return i.fromNative(o.Interface())
}

// callInterpreted runs fn's SSA body bypassing intrinsic lookup.
func (i *Interp) callInterpreted(fr *frame, fn *ssa.Function, args []value) value {
	saved, had := i.intrCache[fn]
	i.intrCache[fn] = nil
	defer func() {
		if had {
			i.intrCache[fn] = saved
		}
	}()
	return i.callSSA(fr, fn, args, nil)
}

// ---------------- fmt ----------------

func registerFmt() {
	intrinsics["fmt.Sprintf"] = func(i *Interp, fr *frame, fn *ssa.Function, args []value) value {
		s, _ := i.sprintf(args[0].(Str), args[1].([]value))
		return s
	}
	intrinsics["fmt.Errorf"] = func(i *Interp, fr *frame, fn *ssa.Function, args []value) value {
		s, wrapped := i.sprintf(args[0].(Str), args[1].([]value))
		return i.newError(s, wrapped)
	}
	intrinsics["github.com/pkg/errors.Errorf"] = intrinsics["fmt.Errorf"]
	sprint := func(sep bool, nl bool) intrinsic {
		return func(i *Interp, fr *frame, fn *ssa.Function, args []value) value {
			var r Str
			for k, a := range args[0].([]value) {
				if k > 0 && sep {
					r = i.strConcat(r, Str{s: " "})
				}
				r = i.strConcat(r, i.formatArg('v', "", a.(iface)))
			}
			if nl {
				r = i.strConcat(r, Str{s: "\n"})
			}
			return r
		}
	}
	intrinsics["fmt.Sprint"] = sprint(false, false)
	intrinsics["fmt.Sprintln"] = sprint(true, true)
	for _, n := range []string{"fmt.Printf", "fmt.Println", "fmt.Print"} {
		intrinsics[n] = func(i *Interp, fr *frame, fn *ssa.Function, args []value) value {
			return tuple{i.mkInt(0), iface{}}
		}
	}
	fwrite := func(i *Interp, fr *frame, w iface, s Str) value {
		if w.t == nil {
			i.targetPanicStr("runtime error: invalid memory address or nil pointer dereference")
		}
		if strings.HasSuffix(w.t.String(), "os.File") {
			return tuple{i.mkInt(int64(s.Len())), iface{}} // console output is dropped
		}
		if s.opaque {
			i.abort(stInconclusive, "formatted symbolic value written to an io.Writer")
		}
		b := i.conv(i.byteSliceType(), types.Typ[types.String], s)
		r, ok := i.callMethod(w, "Write", b)
		if !ok {
			i.abort(stInconclusive, "fmt.Fprint* to a writer without Write")
		}
		return r
	}
	intrinsics["fmt.Fprintf"] = func(i *Interp, fr *frame, fn *ssa.Function, args []value) value {
		s, _ := i.sprintf(args[1].(Str), args[2].([]value))
		return fwrite(i, fr, args[0].(iface), s)
	}
	intrinsics["fmt.Fprint"] = func(i *Interp, fr *frame, fn *ssa.Function, args []value) value {
		return fwrite(i, fr, args[0].(iface), sprint(false, false)(i, fr, fn, args[1:]).(Str))
	}
	intrinsics["fmt.Fprintln"] = func(i *Interp, fr *frame, fn *ssa.Function, args []value) value {
		return fwrite(i, fr, args[0].(iface), sprint(true, true)(i, fr, fn, args[1:]).(Str))
	}
}

// sprintf formats; returns the string and the operands of %w verbs.
func (i *Interp) sprintf(format Str, args []value) (Str, []value) {
	f, ok := format.Concrete()
	if !ok {
		return Str{opaque: true}, nil
	}
	var out Str
	var wrapped []value
	lit := func(s string) { out = i.strConcat(out, Str{s: s}) }
	argi := 0
	for k := 0; k < len(f); {
		if f[k] != '%' {
			j := strings.IndexByte(f[k:], '%')
			if j < 0 {
				lit(f[k:])
				break
			}
			lit(f[k : k+j])
			k += j
			continue
		}
		// parse spec
		j := k + 1
		for j < len(f) && strings.IndexByte("+-# 0123456789.*", f[j]) >= 0 {
			j++
		}
		if j >= len(f) {
			lit("%!(NOVERB)")
			break
		}
		verb := f[j]
		spec := f[k+1 : j]
		k = j + 1
		if verb == '%' {
			lit("%")
			continue
		}
		if strings.Contains(spec, "*") {
			out = Str{opaque: true}
			continue
		}
		if argi >= len(args) {
			lit("%!" + string(verb) + "(MISSING)")
			continue
		}
		a := args[argi].(iface)
		argi++
		if verb == 'w' {
			wrapped = append(wrapped, a)
			verb = 'v'
		}
		out = i.strConcat(out, i.formatArg(verb, spec, a))
	}
	if argi < len(args) && !out.opaque {
		lit("%!(EXTRA)")
	}
	return out, wrapped
}

// formatArg renders one operand.
func (i *Interp) formatArg(verb byte, spec string, a iface) Str {
	if a.t == nil {
		return Str{s: fmt.Sprintf("%"+spec+string(verb), nil)}
	}
	if _, isP := a.v.(poison); isP {
		return Str{opaque: true}
	}
	// fmt prints the value a reflect.Value holds
	if nt, ok := a.t.(*types.Named); ok && nt.Obj().Pkg() != nil && nt.Obj().Pkg().Path() == "reflect" && nt.Obj().Name() == "Value" {
		b := i.rvOf(a.v)
		if b == nil {
			return Str{s: "<invalid reflect.Value>"}
		}
		if b.fn != nil {
			return Str{opaque: true}
		}
		if _, isI := b.t.Underlying().(*types.Interface); isI {
			if x, ok := b.v.(iface); ok {
				return i.formatArg(verb, spec, x)
			}
		}
		return i.formatArg(verb, spec, iface{t: b.t, v: b.v})
	}
	// error / Stringer
	if verb == 'v' || verb == 's' || verb == 'q' {
		for _, mn := range []string{"Error", "String"} {
			if m := i.findMethod(a.t, mn); m != nil && m.Signature.Params().Len() == 0 && m.Signature.Results().Len() == 1 {
				if p, ok := a.v.(*value); ok && p == nil {
					return Str{s: "<nil>"}
				}
				if b, ok := m.Signature.Results().At(0).Type().Underlying().(*types.Basic); ok && b.Kind() == types.String {
					r := i.callSSA(nil, m, []value{a.v}, nil)
					if s, ok := r.(Str); ok {
						if verb == 'q' || spec != "" {
							if cs, ok := s.Concrete(); ok {
								return Str{s: fmt.Sprintf("%"+spec+string(verb), cs)}
							}
							return Str{opaque: true}
						}
						return s
					}
					return Str{opaque: true}
				}
			}
		}
	}
	if nv, ok := i.nativeOf(a.t, a.v); ok {
		// named basic types print like their underlying type
		return Str{s: fmt.Sprintf("%"+spec+string(verb), nv)}
	}
	switch v := a.v.(type) {
	case Str:
		if (verb == 's' || verb == 'v') && spec == "" {
			return v
		}
		return Str{opaque: true}
	case *smt.Term:
		return Str{opaque: true}
	case *value:
		if v == nil {
			if verb == 'v' || verb == 's' {
				return Str{s: "<nil>"}
			}
			return Str{s: "0x0"}
		}
		if verb == 'v' || verb == 's' || verb == '+' {
			// pointer to struct prints &{...}
			if st, ok := (*v).(structure); ok && verb == 'v' {
				inner := i.formatComposite(deref(a.t), st, spec)
				if inner.opaque {
					return inner
				}
				return i.strConcat(Str{s: "&"}, inner)
			}
		}
		return Str{s: "0xc000012345"}
	case structure, array, []value, *mapv:
		if verb == 'v' || verb == 's' || verb == 'd' {
			return i.formatComposite(a.t, v, spec)
		}
		return Str{opaque: true}
	case iface:
		return i.formatArg(verb, spec, v)
	case *ssa.Function, *closure:
		return Str{s: "0x47b0c0"}
	case *chanv:
		return Str{s: "0xc000054060"}
	}
	return Str{opaque: true}
}

func (i *Interp) formatComposite(t types.Type, v value, spec string) Str {
	plus := strings.Contains(spec, "+")
	sharp := strings.Contains(spec, "#")
	if sharp {
		return Str{opaque: true}
	}
	var out Str
	lit := func(s string) { out = i.strConcat(out, Str{s: s}) }
	elem := func(et types.Type, e value) {
		var a iface
		if ie, ok := e.(iface); ok {
			a = ie
		} else {
			a = iface{t: et, v: e}
		}
		out = i.strConcat(out, i.formatArg('v', spec, a))
	}
	switch v := v.(type) {
	case structure:
		st, ok := t.Underlying().(*types.Struct)
		if !ok {
			return Str{opaque: true}
		}
		lit("{")
		for k, e := range v {
			if k > 0 {
				lit(" ")
			}
			if plus {
				lit(st.Field(k).Name() + ":")
			}
			elem(st.Field(k).Type(), e)
		}
		lit("}")
	case array:
		lit("[")
		et := t.Underlying().(*types.Array).Elem()
		for k, e := range v {
			if k > 0 {
				lit(" ")
			}
			elem(et, e)
		}
		lit("]")
	case []value:
		sl, ok := t.Underlying().(*types.Slice)
		if !ok {
			return Str{opaque: true}
		}
		lit("[")
		for k, e := range v {
			if k > 0 {
				lit(" ")
			}
			elem(sl.Elem(), e)
		}
		lit("]")
	case *mapv:
		mt, ok := t.Underlying().(*types.Map)
		if !ok {
			return Str{opaque: true}
		}
		ents := v.live()
		if len(ents) > 1 {
			return Str{opaque: true} // fmt sorts keys; not modelled
		}
		lit("map[")
		for _, e := range ents {
			elem(mt.Key(), e.k)
			lit(":")
			elem(mt.Elem(), e.v)
		}
		lit("]")
	}
	return out
}
