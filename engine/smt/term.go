// Package smt: hash-consed term DAG over Bool / BitVec / FloatingPoint with
// constant folding, a concrete evaluator and SMT-LIB2 printing.
package smt

import (
	"fmt"
	"math"
	"math/bits"
	"strings"
)

type Kind uint8

const (
	KBool Kind = iota
	KBV
	KFP
)

type Sort struct {
	K Kind
	W int // BV width, FP total width (32/64)
}

var Bool = Sort{KBool, 1}

func BV(w int) Sort { return Sort{KBV, w} }
func FP(w int) Sort { return Sort{KFP, w} }

func (s Sort) String() string {
	switch s.K {
	case KBool:
		return "Bool"
	case KBV:
		return fmt.Sprintf("(_ BitVec %d)", s.W)
	default:
		if s.W == 32 {
			return "(_ FloatingPoint 8 24)"
		}
		return "(_ FloatingPoint 11 53)"
	}
}

type Op uint8

const (
	OpConst Op = iota
	OpVar
	OpNot
	OpAnd
	OpOr
	OpIte
	OpEq
	OpAdd
	OpSub
	OpMul
	OpUDiv
	OpSDiv
	OpURem
	OpSRem
	OpBAnd
	OpBOr
	OpBXor
	OpShl
	OpLShr
	OpAShr
	OpNeg
	OpBNot
	OpULT
	OpULE
	OpSLT
	OpSLE
	OpExtract // C = hi<<16|lo
	OpZExt    // to Sort.W
	OpSExt
	OpConcat
	// floats
	OpFAdd
	OpFSub
	OpFMul
	OpFDiv
	OpFNeg
	OpFEq
	OpFLT
	OpFLE
	OpFIsNaN
	OpFFromSInt // bv -> fp
	OpFFromUInt
	OpFToSInt // fp -> bv (RTZ)
	OpFToUInt
	OpFToF      // fp -> fp
	OpFFromBits // bv -> fp reinterpret
	OpDec       // uninterpreted marker never sent to the solver
)

type Term struct {
	ID   int
	Op   Op
	Sort Sort
	Args []*Term
	C    uint64 // constant value (bv bits, bool 0/1, fp bits) or op parameter
	Name string // vars
}

func (t *Term) IsConst() bool { return t.Op == OpConst }

// Ctx is a per-worker term factory (not thread-safe).
type Ctx struct {
	table map[string]*Term
	Vars  map[string]*Term
	VarL  []*Term
	n     int
	True  *Term
	False *Term
}

func NewCtx() *Ctx {
	c := &Ctx{table: map[string]*Term{}, Vars: map[string]*Term{}}
	c.True = c.mk(OpConst, Bool, 1, "", nil)
	c.False = c.mk(OpConst, Bool, 0, "", nil)
	return c
}

func (c *Ctx) NumTerms() int { return c.n }

func (c *Ctx) mk(op Op, s Sort, cv uint64, name string, args []*Term) *Term {
	var sb strings.Builder
	fmt.Fprintf(&sb, "%d.%d.%d.%x.%s", op, s.K, s.W, cv, name)
	for _, a := range args {
		fmt.Fprintf(&sb, ",%d", a.ID)
	}
	k := sb.String()
	if t, ok := c.table[k]; ok {
		return t
	}
	t := &Term{ID: c.n, Op: op, Sort: s, Args: args, C: cv, Name: name}
	c.n++
	c.table[k] = t
	return t
}

func mask(w int) uint64 {
	if w >= 64 {
		return ^uint64(0)
	}
	return (uint64(1) << uint(w)) - 1
}

func (c *Ctx) Const(s Sort, v uint64) *Term {
	switch s.K {
	case KBool:
		if v != 0 {
			return c.True
		}
		return c.False
	case KBV:
		v &= mask(s.W)
	case KFP:
		if s.W == 32 {
			v &= mask(32)
		}
	}
	return c.mk(OpConst, s, v, "", nil)
}

func (c *Ctx) BoolC(b bool) *Term {
	if b {
		return c.True
	}
	return c.False
}

func (c *Ctx) Var(name string, s Sort) *Term {
	if t, ok := c.Vars[name]; ok {
		if t.Sort != s {
			panic("smt: variable " + name + " redeclared with different sort")
		}
		return t
	}
	t := c.mk(OpVar, s, 0, name, nil)
	c.Vars[name] = t
	c.VarL = append(c.VarL, t)
	return t
}

// ---- boolean ----

func (c *Ctx) Not(a *Term) *Term {
	if a.IsConst() {
		return c.BoolC(a.C == 0)
	}
	if a.Op == OpNot {
		return a.Args[0]
	}
	return c.mk(OpNot, Bool, 0, "", []*Term{a})
}

func (c *Ctx) And(a, b *Term) *Term {
	if a.IsConst() {
		if a.C == 0 {
			return c.False
		}
		return b
	}
	if b.IsConst() {
		if b.C == 0 {
			return c.False
		}
		return a
	}
	if a == b {
		return a
	}
	return c.mk(OpAnd, Bool, 0, "", []*Term{a, b})
}

func (c *Ctx) Or(a, b *Term) *Term {
	if a.IsConst() {
		if a.C != 0 {
			return c.True
		}
		return b
	}
	if b.IsConst() {
		if b.C != 0 {
			return c.True
		}
		return a
	}
	if a == b {
		return a
	}
	return c.mk(OpOr, Bool, 0, "", []*Term{a, b})
}

func (c *Ctx) Ite(cond, a, b *Term) *Term {
	if cond.IsConst() {
		if cond.C != 0 {
			return a
		}
		return b
	}
	if a == b {
		return a
	}
	if a.Sort != b.Sort {
		panic("smt: ite sort mismatch")
	}
	if a.Sort.K == KBool && a.IsConst() && b.IsConst() {
		if a.C != 0 && b.C == 0 {
			return cond
		}
		if a.C == 0 && b.C != 0 {
			return c.Not(cond)
		}
	}
	return c.mk(OpIte, a.Sort, 0, "", []*Term{cond, a, b})
}

func (c *Ctx) Eq(a, b *Term) *Term {
	if a.Sort != b.Sort {
		panic(fmt.Sprintf("smt: eq sort mismatch %v %v", a.Sort, b.Sort))
	}
	if a.Sort.K == KFP {
		panic("smt: use FEq for floats")
	}
	if a == b {
		return c.True
	}
	if a.IsConst() && b.IsConst() {
		return c.BoolC(a.C == b.C)
	}
	if a.Sort.K == KBool {
		if a.IsConst() {
			if a.C != 0 {
				return b
			}
			return c.Not(b)
		}
		if b.IsConst() {
			if b.C != 0 {
				return a
			}
			return c.Not(a)
		}
	}
	if a.Sort.K == KBV {
		// x + k1 = x + k2 is decided by the constants (wrapping addition is a bijection)
		ba, ka := addBase(a)
		bb, kb := addBase(b)
		if ba == bb {
			return c.BoolC((ka-kb)&mask(a.Sort.W) == 0)
		}
	}
	if a.ID > b.ID {
		a, b = b, a
	}
	return c.mk(OpEq, Bool, 0, "", []*Term{a, b})
}

// addBase splits t into base + constant (constants of nested additions summed).
func addBase(t *Term) (*Term, uint64) {
	var k uint64
	for t.Op == OpAdd && len(t.Args) == 2 {
		switch {
		case t.Args[1].Op == OpConst:
			k += t.Args[1].C
			t = t.Args[0]
		case t.Args[0].Op == OpConst:
			k += t.Args[0].C
			t = t.Args[1]
		default:
			return t, k
		}
	}
	if t.Op == OpConst {
		return nil, k + t.C
	}
	return t, k
}

// ---- bit-vectors ----

func sext(v uint64, w int) int64 {
	if w >= 64 {
		return int64(v)
	}
	sh := uint(64 - w)
	return int64(v<<sh) >> sh
}

func (c *Ctx) bin(op Op, a, b *Term) *Term {
	if a.Sort != b.Sort || a.Sort.K != KBV {
		panic(fmt.Sprintf("smt: binop %d sort mismatch %v %v", op, a.Sort, b.Sort))
	}
	w := a.Sort.W
	if a.IsConst() && b.IsConst() {
		if v, ok := foldBV(op, a.C, b.C, w); ok {
			return c.Const(a.Sort, v)
		}
	}
	// light identities
	switch op {
	case OpAdd, OpBOr, OpBXor:
		if a.IsConst() && a.C == 0 {
			return b
		}
		if b.IsConst() && b.C == 0 {
			return a
		}
	case OpSub, OpShl, OpLShr, OpAShr:
		if b.IsConst() && b.C == 0 {
			return a
		}
	case OpBAnd:
		if a.IsConst() && a.C == 0 || b.IsConst() && b.C == 0 {
			return c.Const(a.Sort, 0)
		}
		if a.IsConst() && a.C == mask(w) {
			return b
		}
		if b.IsConst() && b.C == mask(w) {
			return a
		}
	case OpMul:
		if a.IsConst() && a.C == 1 {
			return b
		}
		if b.IsConst() && b.C == 1 {
			return a
		}
		if a.IsConst() && a.C == 0 || b.IsConst() && b.C == 0 {
			return c.Const(a.Sort, 0)
		}
	}
	if op == OpBOr || op == OpBAnd {
		if a == b {
			return a
		}
	}
	if (op == OpSDiv || op == OpUDiv) && b.IsConst() && b.C != 0 && a.Op == OpMul {
		// (y * c) / c == y when the product cannot overflow (y zero-extended, small)
		for k := 0; k < 2; k++ {
			cst, y := a.Args[k], a.Args[1-k]
			if cst.IsConst() && cst.C == b.C && sext(b.C, w) > 0 {
				if hi, ok := ubound(y); ok && y.Op == OpZExt {
					lim := uint64(1) << uint(w-1)
					if hi < lim/b.C {
						return y
					}
				}
			}
		}
	}
	if op == OpBXor || op == OpSub {
		if a == b {
			return c.Const(a.Sort, 0)
		}
	}
	return c.mk(op, a.Sort, 0, "", []*Term{a, b})
}

func foldBV(op Op, x, y uint64, w int) (uint64, bool) {
	m := mask(w)
	switch op {
	case OpAdd:
		return (x + y) & m, true
	case OpSub:
		return (x - y) & m, true
	case OpMul:
		return (x * y) & m, true
	case OpUDiv:
		if y == 0 {
			return m, true
		}
		return x / y, true
	case OpURem:
		if y == 0 {
			return x, true
		}
		return x % y, true
	case OpSDiv:
		sx, sy := sext(x, w), sext(y, w)
		if sy == 0 {
			if sx < 0 {
				return 1, true
			}
			return m, true
		}
		if sy == -1 {
			return uint64(-sx) & m, true
		}
		return uint64(sx/sy) & m, true
	case OpSRem:
		sx, sy := sext(x, w), sext(y, w)
		if sy == 0 {
			return x, true
		}
		if sy == -1 {
			return 0, true
		}
		return uint64(sx%sy) & m, true
	case OpBAnd:
		return x & y, true
	case OpBOr:
		return x | y, true
	case OpBXor:
		return x ^ y, true
	case OpShl:
		if y >= uint64(w) {
			return 0, true
		}
		return (x << y) & m, true
	case OpLShr:
		if y >= uint64(w) {
			return 0, true
		}
		return x >> y, true
	case OpAShr:
		sx := sext(x, w)
		if y >= uint64(w) {
			y = uint64(w - 1)
			if w == 64 {
				y = 63
			}
		}
		return uint64(sx>>y) & m, true
	}
	return 0, false
}

func (c *Ctx) Add(a, b *Term) *Term  { return c.bin(OpAdd, a, b) }
func (c *Ctx) Sub(a, b *Term) *Term  { return c.bin(OpSub, a, b) }
func (c *Ctx) Mul(a, b *Term) *Term  { return c.bin(OpMul, a, b) }
func (c *Ctx) UDiv(a, b *Term) *Term { return c.bin(OpUDiv, a, b) }
func (c *Ctx) SDiv(a, b *Term) *Term { return c.bin(OpSDiv, a, b) }
func (c *Ctx) URem(a, b *Term) *Term { return c.bin(OpURem, a, b) }
func (c *Ctx) SRem(a, b *Term) *Term { return c.bin(OpSRem, a, b) }
func (c *Ctx) BAnd(a, b *Term) *Term { return c.bin(OpBAnd, a, b) }
func (c *Ctx) BOr(a, b *Term) *Term  { return c.bin(OpBOr, a, b) }
func (c *Ctx) BXor(a, b *Term) *Term { return c.bin(OpBXor, a, b) }
func (c *Ctx) Shl(a, b *Term) *Term  { return c.bin(OpShl, a, b) }
func (c *Ctx) LShr(a, b *Term) *Term { return c.bin(OpLShr, a, b) }
func (c *Ctx) AShr(a, b *Term) *Term { return c.bin(OpAShr, a, b) }

func (c *Ctx) Neg(a *Term) *Term {
	if a.IsConst() {
		return c.Const(a.Sort, -a.C)
	}
	return c.mk(OpNeg, a.Sort, 0, "", []*Term{a})
}

func (c *Ctx) BNot(a *Term) *Term {
	if a.IsConst() {
		return c.Const(a.Sort, ^a.C)
	}
	return c.mk(OpBNot, a.Sort, 0, "", []*Term{a})
}

func (c *Ctx) cmp(op Op, a, b *Term) *Term {
	if a.Sort != b.Sort || a.Sort.K != KBV {
		panic(fmt.Sprintf("smt: cmp sort mismatch %v %v", a.Sort, b.Sort))
	}
	w := a.Sort.W
	if a.IsConst() && b.IsConst() {
		switch op {
		case OpULT:
			return c.BoolC(a.C < b.C)
		case OpULE:
			return c.BoolC(a.C <= b.C)
		case OpSLT:
			return c.BoolC(sext(a.C, w) < sext(b.C, w))
		case OpSLE:
			return c.BoolC(sext(a.C, w) <= sext(b.C, w))
		}
	}
	if a == b {
		return c.BoolC(op == OpULE || op == OpSLE)
	}
	// range-based folding for zero-extended small values: zext(x) < const
	if op == OpULT || op == OpULE {
		if hi, ok := ubound(a); ok && b.IsConst() {
			if op == OpULT && hi < b.C || op == OpULE && hi <= b.C {
				return c.True
			}
		}
		if hi, ok := ubound(b); ok && a.IsConst() {
			if op == OpULT && a.C >= hi || op == OpULE && a.C > hi {
				return c.False
			}
		}
	}
	return c.mk(op, Bool, 0, "", []*Term{a, b})
}

// ubound returns a cheap syntactic upper bound for a BV term.
func ubound(t *Term) (uint64, bool) {
	switch t.Op {
	case OpConst:
		return t.C, true
	case OpZExt:
		return mask(t.Args[0].Sort.W), true
	}
	return 0, false
}

func (c *Ctx) ULT(a, b *Term) *Term { return c.cmp(OpULT, a, b) }
func (c *Ctx) ULE(a, b *Term) *Term { return c.cmp(OpULE, a, b) }
func (c *Ctx) SLT(a, b *Term) *Term { return c.cmp(OpSLT, a, b) }
func (c *Ctx) SLE(a, b *Term) *Term { return c.cmp(OpSLE, a, b) }

func (c *Ctx) Extract(a *Term, hi, lo int) *Term {
	if a.Sort.K != KBV || hi >= a.Sort.W || lo < 0 || hi < lo {
		panic("smt: bad extract")
	}
	w := hi - lo + 1
	if w == a.Sort.W {
		return a
	}
	if a.IsConst() {
		return c.Const(BV(w), a.C>>uint(lo))
	}
	switch a.Op {
	case OpZExt, OpSExt:
		in := a.Args[0]
		if hi < in.Sort.W {
			return c.Extract(in, hi, lo)
		}
		if a.Op == OpZExt && lo >= in.Sort.W {
			return c.Const(BV(w), 0)
		}
	case OpExtract:
		ilo := int(a.C & 0xffff)
		return c.Extract(a.Args[0], hi+ilo, lo+ilo)
	case OpConcat:
		lw := a.Args[1].Sort.W
		if hi < lw {
			return c.Extract(a.Args[1], hi, lo)
		}
		if lo >= lw {
			return c.Extract(a.Args[0], hi-lw, lo-lw)
		}
	}
	return c.mk(OpExtract, BV(w), uint64(hi)<<16|uint64(lo), "", []*Term{a})
}

func (c *Ctx) ZExt(a *Term, w int) *Term {
	if a.Sort.W == w {
		return a
	}
	if a.Sort.W > w {
		panic("smt: zext narrower")
	}
	if a.IsConst() {
		return c.Const(BV(w), a.C)
	}
	if a.Op == OpZExt {
		return c.ZExt(a.Args[0], w)
	}
	return c.mk(OpZExt, BV(w), 0, "", []*Term{a})
}

func (c *Ctx) SExt(a *Term, w int) *Term {
	if a.Sort.W == w {
		return a
	}
	if a.Sort.W > w {
		panic("smt: sext narrower")
	}
	if a.IsConst() {
		return c.Const(BV(w), uint64(sext(a.C, a.Sort.W)))
	}
	if a.Op == OpZExt { // zero-extended value is non-negative
		return c.ZExt(a.Args[0], w)
	}
	return c.mk(OpSExt, BV(w), 0, "", []*Term{a})
}

func (c *Ctx) Concat(hi, lo *Term) *Term {
	w := hi.Sort.W + lo.Sort.W
	if w > 64 {
		panic("smt: concat wider than 64")
	}
	if hi.IsConst() && lo.IsConst() {
		return c.Const(BV(w), hi.C<<uint(lo.Sort.W)|lo.C)
	}
	return c.mk(OpConcat, BV(w), 0, "", []*Term{hi, lo})
}

// ---- floats ----

func f2b(s Sort, f float64) uint64 {
	if s.W == 32 {
		return uint64(math.Float32bits(float32(f)))
	}
	return math.Float64bits(f)
}

func b2f(s Sort, b uint64) float64 {
	if s.W == 32 {
		return float64(math.Float32frombits(uint32(b)))
	}
	return math.Float64frombits(b)
}

func (c *Ctx) FConst(s Sort, f float64) *Term { return c.Const(s, f2b(s, f)) }

func (c *Ctx) FBin(op Op, a, b *Term) *Term {
	if a.Sort != b.Sort || a.Sort.K != KFP {
		panic("smt: fbin sort mismatch")
	}
	if a.IsConst() && b.IsConst() {
		x, y := b2f(a.Sort, a.C), b2f(a.Sort, b.C)
		var r float64
		if a.Sort.W == 32 {
			x32, y32 := float32(x), float32(y)
			switch op {
			case OpFAdd:
				r = float64(x32 + y32)
			case OpFSub:
				r = float64(x32 - y32)
			case OpFMul:
				r = float64(x32 * y32)
			case OpFDiv:
				r = float64(x32 / y32)
			}
		} else {
			switch op {
			case OpFAdd:
				r = x + y
			case OpFSub:
				r = x - y
			case OpFMul:
				r = x * y
			case OpFDiv:
				r = x / y
			}
		}
		return c.FConst(a.Sort, r)
	}
	return c.mk(op, a.Sort, 0, "", []*Term{a, b})
}

func (c *Ctx) FNeg(a *Term) *Term {
	if a.IsConst() {
		return c.FConst(a.Sort, -b2f(a.Sort, a.C))
	}
	return c.mk(OpFNeg, a.Sort, 0, "", []*Term{a})
}

func (c *Ctx) FCmp(op Op, a, b *Term) *Term {
	if a.Sort != b.Sort || a.Sort.K != KFP {
		panic("smt: fcmp sort mismatch")
	}
	if a.IsConst() && b.IsConst() {
		x, y := b2f(a.Sort, a.C), b2f(a.Sort, b.C)
		switch op {
		case OpFEq:
			return c.BoolC(x == y)
		case OpFLT:
			return c.BoolC(x < y)
		case OpFLE:
			return c.BoolC(x <= y)
		}
	}
	return c.mk(op, Bool, 0, "", []*Term{a, b})
}

func (c *Ctx) FIsNaN(a *Term) *Term {
	if a.IsConst() {
		return c.BoolC(math.IsNaN(b2f(a.Sort, a.C)))
	}
	return c.mk(OpFIsNaN, Bool, 0, "", []*Term{a})
}

// FFromInt converts a BV to a float (RNE).
func (c *Ctx) FFromInt(a *Term, signed bool, to Sort) *Term {
	if a.IsConst() {
		var f float64
		if signed {
			sv := sext(a.C, a.Sort.W)
			if to.W == 32 {
				f = float64(float32(sv))
			} else {
				f = float64(sv)
			}
		} else {
			if to.W == 32 {
				f = float64(float32(a.C))
			} else {
				f = float64(a.C)
			}
		}
		return c.FConst(to, f)
	}
	op := OpFFromUInt
	if signed {
		op = OpFFromSInt
	}
	return c.mk(op, to, 0, "", []*Term{a})
}

// FToInt converts float to BV of width w, truncating; out-of-range follows amd64
// (0x8000... for signed 64/32); only defined in-range symbolically.
func (c *Ctx) FToInt(a *Term, signed bool, w int) *Term {
	if a.IsConst() {
		f := b2f(a.Sort, a.C)
		if signed {
			var v int64
			switch {
			case math.IsNaN(f) || f >= 9.223372036854775808e18 || f < -9.223372036854775808e18:
				v = math.MinInt64
			default:
				v = int64(f)
			}
			return c.Const(BV(w), uint64(v))
		}
		var v uint64
		switch {
		case math.IsNaN(f) || f < 0:
			v = uint64(int64(f))
			if math.IsNaN(f) {
				v = 1 << 63
			}
		case f >= 18446744073709551616.0:
			v = 1 << 63
		default:
			v = uint64(f)
		}
		return c.Const(BV(w), v)
	}
	op := OpFToUInt
	if signed {
		op = OpFToSInt
	}
	raw := c.mk(op, BV(w), 0, "", []*Term{a})
	// int -> float64 -> int of an integer below 2^53 in magnitude is the identity
	// (exactly representable); the solver is only asked about the rest
	if (a.Op == OpFFromSInt || a.Op == OpFFromUInt) && a.Sort.W == 64 && signed == (a.Op == OpFFromSInt) {
		x := a.Args[0]
		if x.Sort.W <= w {
			var small, xw *Term
			if signed {
				xw = x
				if x.Sort.W < w {
					xw = c.SExt(x, w)
				}
				if x.Sort.W <= 53 {
					return xw
				}
				lim := c.Const(x.Sort, uint64(1)<<53)
				small = c.And(c.SLE(c.Neg(lim), x), c.SLE(x, lim))
			} else {
				xw = x
				if x.Sort.W < w {
					xw = c.ZExt(x, w)
				}
				if x.Sort.W <= 53 {
					return xw
				}
				small = c.ULE(x, c.Const(x.Sort, uint64(1)<<53))
			}
			return c.Ite(small, xw, raw)
		}
	}
	return raw
}

func (c *Ctx) FToF(a *Term, to Sort) *Term {
	if a.Sort == to {
		return a
	}
	if a.IsConst() {
		return c.FConst(to, b2f(a.Sort, a.C))
	}
	return c.mk(OpFToF, to, 0, "", []*Term{a})
}

func (c *Ctx) FFromBits(a *Term) *Term {
	s := FP(a.Sort.W)
	if a.IsConst() {
		return c.Const(s, a.C)
	}
	return c.mk(OpFFromBits, s, 0, "", []*Term{a})
}

// ---- evaluation under a model ----

type Model map[string]uint64

func (t *Term) Eval(m Model, memo map[*Term]uint64) uint64 {
	if t.Op == OpConst {
		return t.C
	}
	if v, ok := memo[t]; ok {
		return v
	}
	var r uint64
	a := func(i int) uint64 { return t.Args[i].Eval(m, memo) }
	bl := func(b bool) uint64 {
		if b {
			return 1
		}
		return 0
	}
	switch t.Op {
	case OpVar:
		r = m[t.Name]
		if t.Sort.K == KBV {
			r &= mask(t.Sort.W)
		}
	case OpNot:
		r = 1 - a(0)
	case OpAnd:
		r = a(0) & a(1)
	case OpOr:
		r = a(0) | a(1)
	case OpIte:
		if a(0) != 0 {
			r = a(1)
		} else {
			r = a(2)
		}
	case OpEq:
		r = bl(a(0) == a(1))
	case OpAdd, OpSub, OpMul, OpUDiv, OpSDiv, OpURem, OpSRem, OpBAnd, OpBOr, OpBXor, OpShl, OpLShr, OpAShr:
		r, _ = foldBV(t.Op, a(0), a(1), t.Sort.W)
	case OpNeg:
		r = (-a(0)) & mask(t.Sort.W)
	case OpBNot:
		r = (^a(0)) & mask(t.Sort.W)
	case OpULT:
		r = bl(a(0) < a(1))
	case OpULE:
		r = bl(a(0) <= a(1))
	case OpSLT:
		w := t.Args[0].Sort.W
		r = bl(sext(a(0), w) < sext(a(1), w))
	case OpSLE:
		w := t.Args[0].Sort.W
		r = bl(sext(a(0), w) <= sext(a(1), w))
	case OpExtract:
		lo := uint(t.C & 0xffff)
		r = (a(0) >> lo) & mask(t.Sort.W)
	case OpZExt:
		r = a(0)
	case OpSExt:
		r = uint64(sext(a(0), t.Args[0].Sort.W)) & mask(t.Sort.W)
	case OpConcat:
		r = a(0)<<uint(t.Args[1].Sort.W) | a(1)
	case OpFAdd, OpFSub, OpFMul, OpFDiv:
		x, y := b2f(t.Sort, a(0)), b2f(t.Sort, a(1))
		var f float64
		if t.Sort.W == 32 {
			x32, y32 := float32(x), float32(y)
			switch t.Op {
			case OpFAdd:
				f = float64(x32 + y32)
			case OpFSub:
				f = float64(x32 - y32)
			case OpFMul:
				f = float64(x32 * y32)
			case OpFDiv:
				f = float64(x32 / y32)
			}
		} else {
			switch t.Op {
			case OpFAdd:
				f = x + y
			case OpFSub:
				f = x - y
			case OpFMul:
				f = x * y
			case OpFDiv:
				f = x / y
			}
		}
		r = f2b(t.Sort, f)
	case OpFNeg:
		r = f2b(t.Sort, -b2f(t.Sort, a(0)))
	case OpFEq:
		s := t.Args[0].Sort
		r = bl(b2f(s, a(0)) == b2f(s, a(1)))
	case OpFLT:
		s := t.Args[0].Sort
		r = bl(b2f(s, a(0)) < b2f(s, a(1)))
	case OpFLE:
		s := t.Args[0].Sort
		r = bl(b2f(s, a(0)) <= b2f(s, a(1)))
	case OpFIsNaN:
		r = bl(math.IsNaN(b2f(t.Args[0].Sort, a(0))))
	case OpFFromSInt:
		sv := sext(a(0), t.Args[0].Sort.W)
		if t.Sort.W == 32 {
			r = f2b(t.Sort, float64(float32(sv)))
		} else {
			r = f2b(t.Sort, float64(sv))
		}
	case OpFFromUInt:
		if t.Sort.W == 32 {
			r = f2b(t.Sort, float64(float32(a(0))))
		} else {
			r = f2b(t.Sort, float64(a(0)))
		}
	case OpFToSInt:
		f := b2f(t.Args[0].Sort, a(0))
		if math.IsNaN(f) || f >= 9.223372036854775808e18 || f < -9.223372036854775808e18 {
			r = 1 << 63
		} else {
			r = uint64(int64(f))
		}
		r &= mask(t.Sort.W)
	case OpFToUInt:
		f := b2f(t.Args[0].Sort, a(0))
		if math.IsNaN(f) || f >= 18446744073709551616.0 {
			r = 1 << 63
		} else if f < 0 {
			r = uint64(int64(f))
		} else {
			r = uint64(f)
		}
		r &= mask(t.Sort.W)
	case OpFToF:
		r = f2b(t.Sort, b2f(t.Args[0].Sort, a(0)))
	case OpFFromBits:
		r = a(0)
	default:
		panic(fmt.Sprintf("smt: eval of op %d", t.Op))
	}
	memo[t] = r
	return r
}

// ---- SMT-LIB printing ----

func (t *Term) Ref() string {
	switch t.Op {
	case OpConst:
		switch t.Sort.K {
		case KBool:
			if t.C != 0 {
				return "true"
			}
			return "false"
		case KBV:
			return fmt.Sprintf("(_ bv%d %d)", t.C, t.Sort.W)
		default:
			if t.Sort.W == 32 {
				return fmt.Sprintf("((_ to_fp 8 24) #x%08x)", t.C)
			}
			return fmt.Sprintf("((_ to_fp 11 53) #x%016x)", t.C)
		}
	case OpVar:
		return "|" + t.Name + "|"
	}
	return fmt.Sprintf("t%d", t.ID)
}

var opNames = map[Op]string{
	OpNot: "not", OpAnd: "and", OpOr: "or", OpIte: "ite", OpEq: "=",
	OpAdd: "bvadd", OpSub: "bvsub", OpMul: "bvmul", OpUDiv: "bvudiv", OpSDiv: "bvsdiv",
	OpURem: "bvurem", OpSRem: "bvsrem", OpBAnd: "bvand", OpBOr: "bvor", OpBXor: "bvxor",
	OpShl: "bvshl", OpLShr: "bvlshr", OpAShr: "bvashr", OpNeg: "bvneg", OpBNot: "bvnot",
	OpULT: "bvult", OpULE: "bvule", OpSLT: "bvslt", OpSLE: "bvsle", OpConcat: "concat",
	OpFNeg: "fp.neg", OpFEq: "fp.eq", OpFLT: "fp.lt", OpFLE: "fp.leq", OpFIsNaN: "fp.isNaN",
}

func fpPar(s Sort) string {
	if s.W == 32 {
		return "8 24"
	}
	return "11 53"
}

// Def returns the body expression of a non-leaf term in terms of its args' Refs.
func (t *Term) Def() string {
	r := func(i int) string { return t.Args[i].Ref() }
	switch t.Op {
	case OpExtract:
		return fmt.Sprintf("((_ extract %d %d) %s)", t.C>>16, t.C&0xffff, r(0))
	case OpZExt:
		return fmt.Sprintf("((_ zero_extend %d) %s)", t.Sort.W-t.Args[0].Sort.W, r(0))
	case OpSExt:
		return fmt.Sprintf("((_ sign_extend %d) %s)", t.Sort.W-t.Args[0].Sort.W, r(0))
	case OpFAdd:
		return fmt.Sprintf("(fp.add RNE %s %s)", r(0), r(1))
	case OpFSub:
		return fmt.Sprintf("(fp.sub RNE %s %s)", r(0), r(1))
	case OpFMul:
		return fmt.Sprintf("(fp.mul RNE %s %s)", r(0), r(1))
	case OpFDiv:
		return fmt.Sprintf("(fp.div RNE %s %s)", r(0), r(1))
	case OpFFromSInt:
		return fmt.Sprintf("((_ to_fp %s) RNE %s)", fpPar(t.Sort), r(0))
	case OpFFromUInt:
		return fmt.Sprintf("((_ to_fp_unsigned %s) RNE %s)", fpPar(t.Sort), r(0))
	case OpFToSInt:
		return fmt.Sprintf("((_ fp.to_sbv %d) RTZ %s)", t.Sort.W, r(0))
	case OpFToUInt:
		return fmt.Sprintf("((_ fp.to_ubv %d) RTZ %s)", t.Sort.W, r(0))
	case OpFToF:
		return fmt.Sprintf("((_ to_fp %s) RNE %s)", fpPar(t.Sort), r(0))
	case OpFFromBits:
		return fmt.Sprintf("((_ to_fp %s) %s)", fpPar(t.Sort), r(0))
	}
	name, ok := opNames[t.Op]
	if !ok {
		panic(fmt.Sprintf("smt: no smtlib name for op %d", t.Op))
	}
	var sb strings.Builder
	sb.WriteString("(")
	sb.WriteString(name)
	for i := range t.Args {
		sb.WriteString(" ")
		sb.WriteString(r(i))
	}
	sb.WriteString(")")
	return sb.String()
}

// String renders a term tree (for samples/debugging), bounded in depth.
func (t *Term) String() string { return t.str(4) }

func (t *Term) str(d int) string {
	switch t.Op {
	case OpConst:
		if t.Sort.K == KBool {
			return t.Ref()
		}
		if t.Sort.K == KFP {
			return fmt.Sprint(b2f(t.Sort, t.C))
		}
		return fmt.Sprintf("%d", t.C)
	case OpVar:
		return t.Name
	}
	if d == 0 {
		return fmt.Sprintf("t%d", t.ID)
	}
	var sb strings.Builder
	n := opNames[t.Op]
	if n == "" {
		n = fmt.Sprintf("op%d", t.Op)
	}
	sb.WriteString("(" + n)
	for _, a := range t.Args {
		sb.WriteString(" " + a.str(d-1))
	}
	sb.WriteString(")")
	return sb.String()
}

var _ = bits.Len

// SignExtend interprets the low w bits of v as a signed integer.
func SignExtend(v uint64, w int) int64 { return sext(v, w) }

// BitsToFloat gives the float a constant of sort s denotes.
func BitsToFloat(s Sort, b uint64) float64 { return b2f(s, b) }
