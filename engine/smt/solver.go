package smt

import (
	"bufio"
	"fmt"
	"io"
	"os/exec"
	"strconv"
	"strings"
	"time"
)

type Result int

const (
	Unsat Result = iota
	Sat
	Unknown
)

func (r Result) String() string { return [...]string{"unsat", "sat", "unknown"}[r] }

// Solver drives one incremental SMT solver process. Term definitions are sent
// once (level 0); the assertion stack mirrors the current path condition.
type Solver struct {
	Name      string
	cmd       *exec.Cmd
	in        io.WriteCloser
	out       *bufio.Reader
	defined   map[int]bool // term IDs defined at level 0
	declared  map[string]bool
	stack     []*Term // asserted path condition, one push level each
	Queries   int
	Time      time.Duration
	MaxQuery  time.Duration
	Errors    int
	TimeoutMs int
	// FallbackMs > 0: a query this process answers "unknown" is put to cvc5 with that time limit
	FallbackMs      int
	FallbackQueries int
	FallbackDecided int
	Log       io.Writer
	ctx       *Ctx
	kind      string
}

func NewSolver(ctx *Ctx, kind string, timeoutMs int) (*Solver, error) {
	var cmd *exec.Cmd
	switch kind {
	case "z3", "":
		kind = "z3"
		cmd = exec.Command("z3", "-in")
	case "z3-new":
		cmd = exec.Command("z3-new", "-in")
	case "cvc5":
		cmd = exec.Command("cvc5", "--incremental", "--lang=smt2", "--produce-models", fmt.Sprintf("--tlimit-per=%d", timeoutMs))
	default:
		return nil, fmt.Errorf("unknown solver %q", kind)
	}
	in, err := cmd.StdinPipe()
	if err != nil {
		return nil, err
	}
	out, err := cmd.StdoutPipe()
	if err != nil {
		return nil, err
	}
	cmd.Stderr = cmd.Stdout
	if err := cmd.Start(); err != nil {
		return nil, err
	}
	s := &Solver{Name: kind, cmd: cmd, in: in, out: bufio.NewReaderSize(out, 1<<16), defined: map[int]bool{},
		declared: map[string]bool{}, TimeoutMs: timeoutMs, ctx: ctx, kind: kind}
	if kind == "cvc5" {
		s.send("(set-logic ALL)")
	}
	s.send("(set-option :global-declarations true)")
	s.send("(set-option :produce-models true)")
	if kind != "cvc5" {
		s.send(fmt.Sprintf("(set-option :timeout %d)", timeoutMs))
	}
	return s, nil
}

func (s *Solver) Close() {
	if s.cmd != nil {
		s.in.Close()
		s.cmd.Process.Kill()
		s.cmd.Wait()
		s.cmd = nil
	}
}

func (s *Solver) send(line string) {
	if s.Log != nil {
		fmt.Fprintln(s.Log, line)
	}
	io.WriteString(s.in, line)
	io.WriteString(s.in, "\n")
}

// define makes sure t and its sub-terms are defined in the solver (level 0 if
// the stack is empty; otherwise definitions are emitted inside the current
// level and forgotten on pop -> we always define at level 0 by popping first).
func (s *Solver) define(t *Term, buf *[]string) {
	if t.Op == OpConst {
		return
	}
	if t.Op == OpVar {
		if !s.declared[t.Name] {
			s.declared[t.Name] = true
			*buf = append(*buf, fmt.Sprintf("(declare-const |%s| %s)", t.Name, t.Sort))
		}
		return
	}
	if s.defined[t.ID] {
		return
	}
	// iterative post-order to avoid deep recursion on long chains
	type fr struct {
		t *Term
		i int
	}
	st := []fr{{t, 0}}
	for len(st) > 0 {
		top := &st[len(st)-1]
		if top.i < len(top.t.Args) {
			a := top.t.Args[top.i]
			top.i++
			if a.Op == OpConst {
				continue
			}
			if a.Op == OpVar {
				if !s.declared[a.Name] {
					s.declared[a.Name] = true
					*buf = append(*buf, fmt.Sprintf("(declare-const |%s| %s)", a.Name, a.Sort))
				}
				continue
			}
			if !s.defined[a.ID] {
				st = append(st, fr{a, 0})
			}
			continue
		}
		if !s.defined[top.t.ID] {
			s.defined[top.t.ID] = true
			*buf = append(*buf, fmt.Sprintf("(define-fun t%d () %s %s)", top.t.ID, top.t.Sort, top.t.Def()))
		}
		st = st[:len(st)-1]
	}
}

// sync aligns the solver's assertion stack with pc.
func (s *Solver) sync(pc []*Term, extra *Term) {
	// Definitions must live at level 0: z3 scopes define-fun with push/pop.
	// So first collect everything undefined; if any, pop to level 0, define,
	// and re-push.
	var defs []string
	for _, t := range pc {
		s.define(t, &defs)
	}
	if extra != nil {
		s.define(extra, &defs)
	}
	common := 0
	for common < len(pc) && common < len(s.stack) && pc[common] == s.stack[common] {
		common++
	}
	if n := len(s.stack) - common; n > 0 {
		s.send(fmt.Sprintf("(pop %d)", n))
		s.stack = s.stack[:common]
	}
	for _, d := range defs {
		s.send(d)
	}
	for _, t := range pc[common:] {
		s.send("(push 1)")
		s.send("(assert " + t.Ref() + ")")
		s.stack = append(s.stack, t)
	}
}

func (s *Solver) readLine() (string, error) {
	line, err := s.out.ReadString('\n')
	return strings.TrimSpace(line), err
}

// Check decides satisfiability of pc ∧ extra (extra may be nil). If wantModel
// and sat, the values of all declared variables are returned.
func (s *Solver) Check(pc []*Term, extra *Term, wantModel bool, vars []*Term) (Result, Model) {
	start := time.Now()
	defer func() {
		d := time.Since(start)
		s.Time += d
		if d > s.MaxQuery {
			s.MaxQuery = d
		}
		s.Queries++
	}()
	s.sync(pc, extra)
	if extra != nil {
		s.send("(push 1)")
		s.send("(assert " + extra.Ref() + ")")
	}
	s.send("(check-sat)")
	res := Unknown
	for {
		line, err := s.readLine()
		if err != nil {
			s.Errors++
			return Unknown, nil
		}
		if line == "" {
			continue
		}
		if line == "sat" {
			res = Sat
			break
		}
		if line == "unsat" {
			res = Unsat
			break
		}
		if line == "unknown" || line == "timeout" {
			res = Unknown
			break
		}
		if strings.HasPrefix(line, "(error") {
			s.Errors++
			if s.Log != nil {
				fmt.Fprintln(s.Log, ";; "+line)
			}
			// keep reading until the verdict line arrives, but the result is unknown
			res = Unknown
			// z3 prints the error and then still answers check-sat; consume it
			continue
		}
	}
	if s.Errors > 0 && res != Unknown {
		// an error occurred at some point in this process' life: be conservative
		// only for this query if the error happened during it.
	}
	var m Model
	if res == Sat && wantModel {
		m = s.getModel(vars)
	}
	if extra != nil {
		s.send("(pop 1)")
	}
	if res == Unknown && s.FallbackMs > 0 && s.kind != "cvc5" {
		// second opinion from a different solver on a fresh process (cvc5 decides
		// several floating-point / division queries on which z3 gives up)
		if fb, err := NewSolver(s.ctx, "cvc5", s.FallbackMs); err == nil {
			r2, m2 := fb.Check(pc, extra, wantModel, vars)
			s.FallbackQueries++
			if fb.Errors == 0 && r2 != Unknown {
				s.FallbackDecided++
				res, m = r2, m2
			}
			fb.Close()
		}
	}
	return res, m
}

func (s *Solver) getModel(vars []*Term) Model {
	m := Model{}
	if vars == nil {
		vars = s.ctx.VarL
	}
	var names []*Term
	for _, v := range vars {
		if s.declared[v.Name] {
			names = append(names, v)
		}
	}
	if len(names) == 0 {
		return m
	}
	var sb strings.Builder
	sb.WriteString("(get-value (")
	for _, v := range names {
		sb.WriteString(v.Ref())
		sb.WriteString(" ")
	}
	sb.WriteString("))")
	s.send(sb.String())
	// read a balanced s-expression
	depth := 0
	var txt strings.Builder
	started := false
	for {
		line, err := s.out.ReadString('\n')
		if err != nil {
			s.Errors++
			return m
		}
		for _, ch := range line {
			if ch == '(' {
				depth++
				started = true
			} else if ch == ')' {
				depth--
			}
		}
		txt.WriteString(line)
		if started && depth <= 0 {
			break
		}
	}
	parseValues(txt.String(), names, m)
	return m
}

// parseValues parses "((|x| #x01) (|y| (_ bv3 8)) (|b| true) (|f| (fp #b0 #b... #b...)))".
func parseValues(txt string, names []*Term, m Model) {
	toks := tokenize(txt)
	// find for every name token the following value
	byName := map[string]*Term{}
	for _, v := range names {
		byName[v.Name] = v
	}
	i := 0
	for i < len(toks) {
		tok := toks[i]
		name := strings.Trim(tok, "|")
		v, ok := byName[name]
		if !ok || (i > 0 && toks[i-1] != "(") {
			i++
			continue
		}
		// value is next s-expr
		val, n := parseVal(toks[i+1:], v.Sort)
		m[v.Name] = val
		i += 1 + n
	}
}

func tokenize(s string) []string {
	var toks []string
	i := 0
	for i < len(s) {
		c := s[i]
		switch {
		case c == '(' || c == ')':
			toks = append(toks, string(c))
			i++
		case c == ' ' || c == '\n' || c == '\t' || c == '\r':
			i++
		case c == '|':
			j := strings.IndexByte(s[i+1:], '|')
			toks = append(toks, s[i:i+j+2])
			i += j + 2
		default:
			j := i
			for j < len(s) && !strings.ContainsRune("() \n\t\r", rune(s[j])) {
				j++
			}
			toks = append(toks, s[i:j])
			i = j
		}
	}
	return toks
}

func parseVal(toks []string, sort Sort) (uint64, int) {
	if len(toks) == 0 {
		return 0, 0
	}
	t := toks[0]
	if t != "(" {
		switch {
		case t == "true":
			return 1, 1
		case t == "false":
			return 0, 1
		case strings.HasPrefix(t, "#x"):
			v, _ := strconv.ParseUint(t[2:], 16, 64)
			return v, 1
		case strings.HasPrefix(t, "#b"):
			v, _ := strconv.ParseUint(t[2:], 2, 64)
			return v, 1
		}
		return 0, 1
	}
	// find matching paren
	depth := 0
	end := 0
	for i, x := range toks {
		if x == "(" {
			depth++
		} else if x == ")" {
			depth--
			if depth == 0 {
				end = i
				break
			}
		}
	}
	inner := toks[1:end]
	n := end + 1
	if len(inner) >= 3 && inner[0] == "_" && strings.HasPrefix(inner[1], "bv") {
		v, _ := strconv.ParseUint(inner[1][2:], 10, 64)
		return v, n
	}
	if len(inner) >= 4 && inner[0] == "fp" {
		sg, _ := parseVal(inner[1:2], Sort{})
		ex, _ := parseVal(inner[2:3], Sort{})
		mn, _ := parseVal(inner[3:4], Sort{})
		if sort.W == 32 {
			return sg<<31 | ex<<23 | mn, n
		}
		return sg<<63 | ex<<52 | mn, n
	}
	if len(inner) >= 2 && inner[0] == "_" {
		// (_ +zero 11 53), (_ -zero ..), (_ +oo ..), (_ -oo ..), (_ NaN ..)
		w64 := sort.W != 32
		switch inner[1] {
		case "+zero":
			return 0, n
		case "-zero":
			if w64 {
				return 1 << 63, n
			}
			return 1 << 31, n
		case "+oo":
			if w64 {
				return 0x7ff0000000000000, n
			}
			return 0x7f800000, n
		case "-oo":
			if w64 {
				return 0xfff0000000000000, n
			}
			return 0xff800000, n
		case "NaN":
			if w64 {
				return 0x7ff8000000000001, n
			}
			return 0x7fc00001, n
		}
	}
	return 0, n
}
